#!/usr/bin/env bash
# tools/stress.sh <busy loops> <ID>...   - run quick checks at nice 19 while <n> busy loops (nice 0) hog the machine.
# On the unchanged tree every check must end with exit 0 (held) or exit 2 (inconclusive), never with a VIOLATION.
set -u
VERIF="$(cd "$(dirname "${BASH_SOURCE[0]}")/.." && pwd)"
N="$1"; shift
pids=()
for i in $(seq "$N"); do ( while :; do :; done ) & pids+=($!); done
trap 'kill "${pids[@]}" 2>/dev/null' EXIT
for id in "$@"; do
  t0=$(date +%s)
  out="$(nice -n 19 "$VERIF/check" "$id" quick 2>&1)"; rc=$?
  echo "[$id rc=$rc $(( $(date +%s)-t0 ))s load=$(cut -d' ' -f1 /proc/loadavg)] $(echo "$out" | grep -E '^(DETAIL|VIOLATION|INFRA|OK|FAIL|INCONCLUSIVE)' | head -3 | cut -c1-300 | tr '\n' '|')"
done
