#!/usr/bin/env bash
# tools/reseed.sh <seed id, e.g. C10-c> [check ids...]   - re-run our quick checks against a filed seeded change
# (default: the checks recorded in its meta.json) and refresh meta.json's our_checks_quick_tier.
set -u
VERIF="$(cd "$(dirname "${BASH_SOURCE[0]}")/.." && pwd)"
ID="$1"; shift
D="$VERIF/seeded/$ID"
[ -f "$D/patch.diff" ] || { echo "no $D/patch.diff"; exit 2; }
if [ $# -gt 0 ]; then checks="$*"; else checks="$(python3 -c "import json;print(' '.join(json.load(open('$D/meta.json'))['our_checks_quick_tier'].keys()))")"; fi
res="$("$VERIF/tools/mutant.sh" "$D/patch.diff" $checks 2>&1)"
echo "== $ID"; echo "$res" | cut -c1-300
python3 - "$D/meta.json" "$res" <<'PY'
import json,sys,re
m,res=sys.argv[1:3]
d=json.load(open(m))
for l in res.split('\n'):
    mm=re.match(r'\[(C\d\d) rc=(\d+) (\d+)s\] (.*)',l)
    if mm: d['our_checks_quick_tier'][mm.group(1)]={"exit":int(mm.group(2)),"seconds":int(mm.group(3)),"first_line":mm.group(4)[:300]}
json.dump(d,open(m,'w'),indent=1)
PY
