#!/usr/bin/env python3
"""Fill needs_to_manifest / change_summary / breaks_property of seeded/*/meta.json from the sub-agent's README.md."""
import json, glob, os, re
def section(text, names):
    # bold-labelled paragraph or markdown heading whose label starts with one of names
    paras = re.split(r'\n\s*\n', text)
    for i, p in enumerate(paras):
        head = p.strip()[:60].lower()
        if any(re.match(r'^(\*\*|#+\s*|- \*\*)?\s*' + n, head) for n in names):
            body = p
            # headings: take the following paragraph(s) too
            if p.strip().startswith('#') and i + 1 < len(paras):
                body = p + ' ' + paras[i + 1]
            return re.sub(r'\s+', ' ', re.sub(r'[*#]', '', body)).strip()
    return None
n = 0
for m in sorted(glob.glob('/verif/seeded/*/meta.json')):
    d = json.load(open(m))
    rd = os.path.join(os.path.dirname(m), 'README.md')
    if not os.path.exists(rd):
        continue
    text = open(rd).read()
    changed = False
    if d.get('needs_to_manifest', '').startswith('see README') or 'needs_to_manifest' not in d:
        s = section(text, ['trigger', 'needed to manifest', 'needs', 'what it needs', 'when it'])
        if s:
            d['needs_to_manifest'] = s[:900]; changed = True
    if 'change_summary' not in d:
        s = section(text, ['site', 'change', 'the change', 'what'])
        if s:
            d['change_summary'] = s[:700]; changed = True
    if 'breaks_property' not in d:
        d['breaks_property'] = d['property']; changed = True
    if changed:
        json.dump(d, open(m, 'w'), indent=1); n += 1
print(n, 'metas enriched')
