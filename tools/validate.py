#!/usr/bin/env python3-vt
"""Validate MANIFEST.json and every evidence file against the given schemas."""
import json, sys, glob, jsonschema
ok = True
m = json.load(open('/verif/MANIFEST.json'))
jsonschema.validate(m, json.load(open('/root/.vp/MANIFEST.schema.json')))
ev_schema = json.load(open('/root/.vp/EVIDENCE.schema.json'))
props = [json.loads(l)['id'] for l in open('/verif/properties.jsonl')]
claimed = [c['property_id'] for c in m['checks']]
na = [n['property_id'] for n in m.get('not_applicable', [])]
for p in props:
    if (p in claimed) == (p in na):
        print('property', p, 'must be either claimed or not_applicable'); ok = False
for c in m['checks']:
    f = c['evidence_file']
    try:
        jsonschema.validate(json.load(open(f)), ev_schema)
    except Exception as e:
        print('evidence', f, 'INVALID:', str(e)[:200]); ok = False
print('manifest ok; claimed', len(claimed), 'not_applicable', len(na), 'all valid' if ok else 'PROBLEMS')
sys.exit(0 if ok else 1)
