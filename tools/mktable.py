#!/usr/bin/env python3
"""Rebuild the sensitivity table of DESIGN.md section 10.4 from seeded/*/meta.json and tools/sensitivity.tsv."""
import json, glob, os, re
rows = []
for m in sorted(glob.glob('/verif/seeded/*/meta.json')):
    d = json.load(open(m))
    name = os.path.basename(os.path.dirname(m))
    readme = os.path.join(os.path.dirname(m), 'README.md')
    what = ''
    if os.path.exists(readme):
        for l in open(readme):
            l = l.strip()
            if l and not l.startswith('#'):
                what = re.sub(r'[`*|]', '', l)[:140]
                break
    res = d.get('our_checks_quick_tier', {})
    caught = [k for k, v in res.items() if v['exit'] == 1]
    missed = [k for k, v in res.items() if v['exit'] == 0]
    other = [k for k, v in res.items() if v['exit'] not in (0, 1)]
    demo = d['demonstration']
    rows.append((name, 'sub-agent seed for ' + d['property'], what, ', '.join(caught) or '-', ', '.join(missed) or '-', ('; infra: ' + ','.join(other)) if other else ''))
if os.path.exists('/verif/tools/sensitivity.tsv'):
    for l in open('/verif/tools/sensitivity.tsv'):
        l = l.rstrip('\n')
        if not l or l.startswith('#'): continue
        name, kind, what, caught, missed = (l.split('\t') + ['', '', '', '', ''])[:5]
        rows.append((name, kind, what, caught or '-', missed or '-', ''))
out = ['| change | origin | what it does | caught by (quick tier) | run but silent |', '|---|---|---|---|---|']
for r in rows:
    out.append(f'| {r[0]} | {r[1]} | {r[2]} | {r[3]}{r[5]} | {r[4]} |')
table = '\n'.join(out) + '\n'
p = '/verif/DESIGN.md'
s = open(p).read()
begin, end = '<!-- SENSITIVITY-TABLE-BEGIN -->', '<!-- SENSITIVITY-TABLE-END -->'
if begin in s:
    s = s[:s.index(begin) + len(begin)] + '\n' + table + s[s.index(end):]
else:
    s += '\n' + begin + '\n' + table + end + '\n'
open(p, 'w').write(s)
print(len(rows), 'rows')
