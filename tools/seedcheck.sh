#!/usr/bin/env bash
# tools/seedcheck.sh <PROP> <a|b> [extra check ids...]
# Confirms a sub-agent's seeded change independently (tests still pass, demo fails with / passes without),
# runs our checks against it in the scratch worktree, and files it under /verif/seeded/<PROP>-<a|b>/.
set -u
VERIF="$(cd "$(dirname "${BASH_SOURCE[0]}")/.." && pwd)"
P="$1"; V="$2"; shift 2
SRC="${SEEDROOT:-/tmp/seed}-$P/SEED/$V"
S="${SCRATCH:-/tmp/rce-scratch}"
OUT="$VERIF/seeded/$P-${OUTV:-$V}"
[ -f "$SRC/patch.diff" ] || { echo "no $SRC/patch.diff"; exit 2; }
mkdir -p "$OUT"
cp "$SRC"/patch.diff "$OUT/"; cp "$SRC"/demo.* "$OUT/" 2>/dev/null; cp "$SRC/README.md" "$OUT/README.md" 2>/dev/null
if [ ! -d "$S" ]; then git -C /repo worktree add --detach "$S" HEAD >/dev/null 2>&1; fi
git -C "$S" checkout -q --detach "$(git -C /repo rev-parse HEAD)" 2>/dev/null
clean() { git -C "$S" checkout -q -- . ; git -C "$S" clean -qfd -e target; }
clean
export CARGO_NET_OFFLINE=true
# 1. existing tests with the change
git -C "$S" apply "$SRC/patch.diff" || { echo "patch does not apply"; exit 2; }
tests_with="$(cd "$S" && cargo test --offline 2>&1 | grep -E '^test result' | head -1)"
# 2. demonstration with / without
demo_with="n/a"; demo_without="n/a"; demo_kind="none"
if [ -f "$SRC/demo.diff" ]; then
  demo_kind="rust-test (demo.diff)"
  git -C "$S" apply "$SRC/demo.diff" && demo_with="$(cd "$S" && cargo test --offline seed 2>&1 | grep -E '^test result' | head -1)"
  clean; git -C "$S" apply "$SRC/demo.diff" && demo_without="$(cd "$S" && cargo test --offline seed 2>&1 | grep -E '^test result' | head -1)"
  clean
elif [ -f "$SRC/demo.py" ]; then
  demo_kind="uci script (demo.py)"
  # built with the hooks compiled in (they are no-ops unless RCE_VERIF_SCHED is set); some demos need the schedule points
  (cd "$S" && RUSTFLAGS="--cfg rce_verif -A warnings" CARGO_PROFILE_RELEASE_LTO=off cargo build --release --offline >/dev/null 2>&1)
  (cd "$S" && timeout 600 python3 "$SRC/demo.py" target/release/rust_chess_engine >/dev/null 2>&1); demo_with="exit $?"
  clean
  (cd "$S" && RUSTFLAGS="--cfg rce_verif -A warnings" CARGO_PROFILE_RELEASE_LTO=off cargo build --release --offline >/dev/null 2>&1)
  (cd "$S" && timeout 600 python3 "$SRC/demo.py" target/release/rust_chess_engine >/dev/null 2>&1); demo_without="exit $?"
fi
clean
# 3. our checks against the change
checks="$P $*"
res="$("$VERIF/tools/mutant.sh" "$SRC/patch.diff" $checks 2>&1)"
echo "== $P-${OUTV:-$V}"; echo "tests with change: $tests_with"; echo "demo ($demo_kind): with=[$demo_with] without=[$demo_without]"; echo "$res"
python3 - "$OUT/meta.json" "$P" "${OUTV:-$V}" "$tests_with" "$demo_kind" "$demo_with" "$demo_without" "$res" <<'PY'
import json,sys,re
out,P,V,tw,dk,dw,dwo,res=sys.argv[1:9]
caught={}
for l in res.split('\n'):
    m=re.match(r'\[(C\d\d) rc=(\d+) (\d+)s\] (.*)',l)
    if m: caught[m.group(1)]={"exit":int(m.group(2)),"seconds":int(m.group(3)),"first_line":m.group(4)[:300]}
json.dump({"property":P,"variant":V,"source":"independent sub-agent given only the property text and a scratch worktree",
 "existing_tests_with_change":tw,"demonstration":{"kind":dk,"with_change":dw,"without_change":dwo},
 "needs_to_manifest":"see README.md (written by the sub-agent)","our_checks_quick_tier":caught,
 "ran":"tools/seedcheck.sh %s %s (scratch worktree /tmp/rce-scratch: git apply patch.diff; cargo test --offline; demo with and without; tools/mutant.sh patch.diff <checks>)"%(P,V)},open(out,'w'),indent=1)
PY
