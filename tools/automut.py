#!/usr/bin/env python3
"""tools/automut.py <count> <seed> [--files f1,f2,...]

Automatic one-token mutants of the engine (operator flips, off-by-one constants, dropped
statements) in a scratch worktree: a mutant that still compiles AND still passes the
existing test suite is run against the quick tiers of the checks that look at that file;
the outcome is appended to tools/automut.tsv.  Survivors are then triaged by hand
(equivalent mutant / outside every property / gap in a check) - see DESIGN.md 10.4.

Never touches /repo's working tree.  Scratch: $AUTOMUT_SCRATCH (default /tmp/rce-scratch3),
checks are run from $AUTOMUT_VERIF (default /verif).
"""
import os, re, sys, random, subprocess, json, time, hashlib

VERIF = os.environ.get('AUTOMUT_VERIF', '/verif')
S = os.environ.get('AUTOMUT_SCRATCH', '/tmp/rce-scratch3')
OUT = os.environ.get('AUTOMUT_OUT', '/verif/tools/automut.tsv')

# which checks look at which part of the engine
SCOPE = [
    (r'^src/search', ['C09', 'C11', 'C12', 'C13', 'C14', 'C16', 'C10']),
    (r'^src/uci', ['C08', 'C15', 'C09', 'C10', 'C14']),
    (r'^src/evaluate', ['C17', 'C11', 'C16']),
    (r'^src/board/zkey', ['C04', 'C05', 'C02', 'C03']),
    (r'^src/board/serialize', ['C07', 'C08', 'C04', 'C02']),
    (r'^src/board/transposition', ['C11', 'C12', 'C13', 'C16']),
    (r'^src/board/piece/|^src/board/square|^src/board/bitboard|^src/board/piece_bitboards', ['C06', 'C01', 'C02']),
    (r'^src/board', ['C01', 'C02', 'C03', 'C04', 'C07', 'C11']),
]

OPS = [
    (r' <= ', ' < '), (r' >= ', ' > '), (r' < ', ' <= '), (r' > ', ' >= '), (r' < ', ' > '), (r' >= ', ' < '),
    (r'==', '!='), (r'!=', '=='), (r'&&', '||'), (r'\|\|', '&&'),
    (r'\+ 1\b', '+ 2'), (r'- 1\b', '- 2'), (r'\+ 1\b', '- 1'), (r'\b0\b', '1'), (r'\b1\b', '0'), (r'\b100\b', '99'),
    (r'\btrue\b', 'false'), (r'\bfalse\b', 'true'), (r'\.max\(', '.min('), (r'\.min\(', '.max('),
    ('<<', '>>'), (r' \| ', ' & '), (r' & ', ' | '), (r'\^=', '|='),
    ('DROP', ''),
]


def sh(cmd, cwd=None, timeout=None, env=None):
    # own process group, so that a hanging test binary is killed together with its shell
    p = subprocess.Popen(cmd, shell=True, cwd=cwd, stdout=subprocess.PIPE, stderr=subprocess.STDOUT, text=True, env=env, start_new_session=True)
    try:
        out, _ = p.communicate(timeout=timeout)
        return p.returncode, out
    except subprocess.TimeoutExpired:
        import signal
        try:
            os.killpg(p.pid, signal.SIGKILL)
        except ProcessLookupError:
            pass
        p.communicate()
        return 124, 'timeout'


def code_lines(path):
    """(line index, text) of lines outside the test module, comments, attributes and verif hooks"""
    lines = open(path).read().split('\n')
    out = []
    in_tests = False
    hook_skip = 0
    for i, l in enumerate(lines):
        st = l.strip()
        if st.startswith('#[cfg(test)]'):
            in_tests = True
        if in_tests:
            continue
        if 'cfg(rce_verif)' in st:
            hook_skip = 3
        if hook_skip > 0:
            hook_skip -= 1
            continue
        if not st or st.startswith('//') or st.startswith('#[') or st.startswith('use ') or st.startswith('///'):
            continue
        if 'assert' in st or 'println!' in st or 'verif' in st:
            continue
        out.append((i, l))
    return lines, out


def main():
    n = int(sys.argv[1]); seed = int(sys.argv[2])
    files = None
    if '--files' in sys.argv:
        files = sys.argv[sys.argv.index('--files') + 1].split(',')
    rnd = random.Random(seed)
    if not os.path.isdir(S):
        sh(f'git -C /repo worktree add --detach {S} HEAD')
    head = sh('git -C /repo rev-parse HEAD')[1].strip()
    sh(f'git -C {S} checkout -q --detach {head}; git -C {S} checkout -q -- .; git -C {S} clean -qfd -e target')
    all_files = [l for l in sh('git -C /repo ls-files src')[1].split('\n') if l.endswith('.rs') and 'testing_utils' not in l and 'verif_hooks' not in l and 'bench.rs' not in l and 'main.rs' not in l and 'logger' not in l]
    if files:
        all_files = [f for f in all_files if any(f.startswith(x) for x in files)]
    # weight files by size
    weights = [max(1, len(open('/repo/' + f).read()) // 500) for f in all_files]
    env = dict(os.environ, CARGO_NET_OFFLINE='true')
    done = 0
    tried = 0
    while done < n and tried < n * 200:
        tried += 1
        f = rnd.choices(all_files, weights)[0]
        lines, cand = code_lines('/repo/' + f)
        if not cand:
            continue
        i, l = rnd.choice(cand)
        fits = [op for op in OPS if op[0] == 'DROP' or re.search(op[0], l)]
        op = rnd.choice(fits)
        if op[0] == 'DROP':
            st = l.strip()
            if not st.endswith(';') or st.startswith('let ') or st.startswith('return') or '=' in st.split('(')[0] and '==' not in st:
                continue
            new = l[:len(l) - len(l.lstrip())] + '// dropped: ' + st
            what = 'statement dropped'
        else:
            ms = list(re.finditer(op[0], l))
            if not ms:
                continue
            m = rnd.choice(ms)
            # not inside a string literal or a type position (rough)
            if l[:m.start()].count('"') % 2 == 1 or '->' in l[max(0, m.start() - 3):m.end() + 3] or '::<' in l:
                continue
            new = l[:m.start()] + op[1] + l[m.end():]
            what = f"'{m.group(0)}' -> '{op[1]}'"
        mid = hashlib.md5(f'{f}:{i}:{new}'.encode()).hexdigest()[:8]
        if os.path.exists(OUT) and mid in open(OUT).read():
            continue
        mutated = lines[:]
        mutated[i] = new
        sh(f'git -C {S} checkout -q -- .')
        open(os.path.join(S, f), 'w').write('\n'.join(mutated))
        t0 = time.time()
        rc, out = sh('cargo test --offline 2>&1 | tail -5', cwd=S, timeout=900, env=env)
        m = re.search(r'test result: (\w+)\. (\d+) passed; (\d+) failed', out)
        if rc == 124:
            verdict = 'hangs-in-existing-tests'
        elif not m:
            verdict = 'does-not-compile'
        elif m.group(1) != 'ok':
            verdict = 'killed-by-existing-tests'
        else:
            verdict = 'survives-tests'
        row = [mid, f, str(i + 1), what, l.strip()[:110].replace('\t', ' '), verdict]
        if verdict == 'survives-tests':
            checks = []
            for pat, cs in SCOPE:
                if re.search(pat, f):
                    checks = cs
                    break
            res = []
            for c in checks:
                e2 = dict(env, VERIF_REPO=S, VERIF_SEED='1')
                rc, out = sh(f'{VERIF}/check {c} quick 2>&1 | grep -E "^(DETAIL|OK|FAIL|INFRA)" | head -2 | cut -c1-260', timeout=1800, env=e2)
                first = out.strip().split('\n')[0] if out.strip() else ''
                status = 'caught' if 'DETAIL' in out or 'FAIL' in out else ('silent' if out.startswith('OK') else 'infra')
                res.append(f'{c}:{status}')
                if status == 'caught':
                    row.append(first[:200].replace('\t', ' '))
                    break
            row.insert(6, ' '.join(res))
            done += 1
        else:
            row.append('')
        with open(OUT, 'a') as fh:
            fh.write('\t'.join(row) + '\n')
        print('\t'.join(row)[:300], f'[{int(time.time() - t0)}s]', flush=True)
    sh(f'git -C {S} checkout -q -- .')


main()
