#!/usr/bin/env python3
"""tools/mkmut.py <repo-relative file> <old text> <new text> [occurrence (1-based, default 1)]  -> unified diff on stdout"""
import sys, difflib
f, old, new = sys.argv[1], sys.argv[2], sys.argv[3]
occ = int(sys.argv[4]) if len(sys.argv) > 4 else 1
src = open('/repo/' + f).read()
idx = -1
for _ in range(occ):
    idx = src.index(old, idx + 1)
out = src[:idx] + new + src[idx + len(old):]
sys.stdout.write(''.join(difflib.unified_diff(src.splitlines(True), out.splitlines(True), 'a/' + f, 'b/' + f)))
