#!/usr/bin/env bash
# tools/runall.sh [quick|thorough] [seed]  - run every registered check once, print one line each
cd "$(dirname "$0")/.."
tier="${1:-quick}"; seed="${2:-1}"
for id in $(cat tools/built.txt); do
  t0=$(date +%s)
  out="$(VERIF_SEED=$seed ./check "$id" "$tier" 2>/dev/null)"; rc=$?
  t1=$(date +%s)
  echo "[$id rc=$rc $((t1-t0))s] $(echo "$out" | grep -E '^(VIOLATION|KNOWN|INFRA|OK|FAIL|INCONCLUSIVE)' | head -3 | cut -c1-300 | tr '\n' '|')"
done
