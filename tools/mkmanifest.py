#!/usr/bin/env python3
"""Generate /verif/MANIFEST.json from the table below (keeps the manifest in sync with the checks that exist)."""
import json, subprocess
P = {
 "C01": dict(cat="exploration", tech="differential testing against an independent rules oracle over bounded exhaustive walks and proptest-generated games",
   text="Every position of exhaustive lock-step walks (startpos depth 4/5, each corpus FEN depth 2-5) and of generated, special-move-weighted games is compared with an independent rules implementation: move multiset in both directions, successor placement and flags of every offered move, check status of both colours. Exploration with an exact oracle is the right level: the property quantifies over all positions, and rare rule combinations are reached by aimed generators and measured per class.",
   note="Trusted base: vf/oracle.rs (validated against published perft values at every run); start positions are set up through Board::from_fen.", ref="5 C01"),
 "C02": dict(cat="exploration", tech="stateful property-based testing (make/unmake/query op sequences) with a round-trip oracle on the whole Board",
   text="Generated stack-disciplined op sequences; after every unmake and every query the whole Board (derived PartialEq over all fields) must equal the clone taken before; every legal move of every visited position is made and unmade; the line is unwound at the end. Repetition-weighted play makes repeated positions common (the class in which the repaired defect lived).",
   note="Board's derived PartialEq covers every field; the oracle only chooses moves and detects repetitions.", ref="5 C02"),
 "C03": dict(cat="exploration", tech="model-based testing: differential against an independent game state machine after every move of long generated games",
   text="Games up to 300/400 plies from startpos, corpus, synthesised starts (clocks 0..150, move numbers 1..6000) and patterns; after each move all 64 squares, side, 4 rights, e.p. file, both clocks and the set of remembered earlier positions are compared with the oracle's game state.",
   note="Oracle state machine in vf/oracle.rs; e.p. file and remembered keys read through cfg(rce_verif) accessors.", ref="5 C03"),
 "C04": dict(cat="exploration", tech="property-based testing of histories: incremental key = from-scratch key = FEN-reload key after every make and unmake, plus a run-wide position->key table and explicit transposition pairs",
   text="Generated op sequences with take-backs; after the load, every make and every unmake three keys must agree, and a table position-identity -> key must never see a second key for a known identity; transposing move orders are generated explicitly.",
   note="Position identity is the oracle's (placement, side, rights, e.p. file); table is per shard, path-free FEN-reload equality covers cross-shard transpositions.", ref="5 C04"),
 "C05": dict(cat="exploration", tech="injectivity check over millions of explored positions plus every single-component perturbation (metamorphic: one component changed => key changed)",
   text="One run-wide table key -> position identity over all positions of oracle-driven walks and generated games (16 M distinct in the quick tier); every single-component perturbation of sampled positions must change the key; a complete single-component table from minimal bases.",
   note="Keys via Board::from_fen(oracle FEN); an honest 64-bit collision is improbable (about N^2/2^65) and deterministic per code and seed.", ref="5 C05"),
 "C06": dict(cat="exploration", tech="complete enumeration of the slider line-subset space and leaper squares against a coordinate ray-walk reference, plus proptest-generated full-board occupancies",
   text="All 64 squares x all subsets of the squares on the rook's, bishop's and queen's lines (about 4.5 M table look-ups, enumerated completely in both tiers), all leaper squares, random full boards and Kind::get_attacks through FEN-built boards. exhaustive=true for the stated finite space.",
   note="Reference ray walk written for the harness, independent of the engine's RAYS/get_attacks_slow.", ref="5 C06"),
 "C07": dict(cat="exploration", tech="property-based testing over constructed valid FEN strings: field-by-field differential against an independent FEN reader and lock-step play against the played twin",
   text="FENs rendered by the oracle from synthesised and played positions (all consistent flag subsets, e.p. both colours, clocks 0..150, move numbers 1..6000, 6- and 4-field); loaded boards are compared field by field with the oracle's reader, then played in lock step with the oracle and the same position reached by play.",
   note="Only valid FEN strings are generated; oracle FEN reader/writer round-trip validated at start.", ref="5 C07"),
 "C08": dict(cat="exploration", tech="model-based testing of UCI sessions: in-process session object and real process against a session model plus the rules oracle; text-level mutation fuzzing of the sessions (blind in quick, coverage-guided libFuzzer in thorough) against a strict oracle-side grammar reader",
   text="Generated sessions of position/ucinewgame commands (6- and 4-field FEN; previous command re-sent, extended or shortened; games of up to 3000 plies) with legal move lists and single-move corruptions; after every command the session board must equal the model (last accepted position) and corrupted commands must be refused as a whole; the same sessions over the real binary are probed with a short search whose bestmove must be legal in the model position and in no other candidate.",
   note="Rules oracle + session model; in-process layer uses hook H4 which runs the same parser/executor as uci_loop.", ref="5 C08"),
 "C09": dict(cat="exploration", tech="property-based testing of the real engine process over generated (position, limit-combination) sessions with a legality and deadline oracle",
   text="Sessions of 1..5 go commands with any mix of depth/nodes/movetime/clock/increment limits including 0, 1 and tiny budgets (idle commands in between; every third go continues the previous game, half of those as a complete search followed two plies later by a go that completes no iteration; capture-saturated positions under time-bounded go), self-play flows of 24-40 searches in one engine process, and tiny trees under huge budgets; exactly one legal bestmove before limit+3 s, then readyok.",
   note="Rules oracle for legality; deadlines are generous stand-ins for 'in time'; harness-side failures are exit 2.", ref="5 C09"),
 "C10": dict(cat="exploration", tech="schedule-forcing property-based testing: generated command scripts delivered at labelled search-thread events (cfg hook schedule points) on the real binary; stop storms, isready storms and an idle-at-the-end oracle",
   text="Labelled schedule points hold each window named by the property open; the harness delivers stop/go/position/ucinewgame/isready inside it by event and requires one legal bestmove per go, prompt end after stop and no refused conformant command; plus stop storms (hundreds of go/stop rounds with generated micro-delays, incl. capture-saturated positions) for races inside the search's own polling that no label brackets.",
   note="Only orders needing a window at a labelled point are reached; deadlines include the injected sleeps, so forcing cannot create a false alarm.", ref="5 C10"),
 "C11": dict(cat="exploration", tech="differential testing of the search against an unpruned reference negamax on the oracle board, caching neutralised by a cfg hook; generators steered by rule-sensitivity counts (reference re-run with one rule broken); coverage-guided libFuzzer campaign (fuzz_search) in the thorough tier",
   text="(position, history, depth) cases incl. mate nets, stalemates, fifty-move clocks, remembered repetitions, promotion structures, check chains and discovered-check set-ups; engine root score and chosen move value must equal the exact minimax value of the engine's own look-ahead game computed without pruning, ordering or cache.",
   note="Reference in vf/refsearch.rs on the independent oracle; root handled as the engine handles it; cases beyond the reference's node budget are skipped and counted.", ref="5 C11"),
 "C12": dict(cat="exploration", tech="property-based testing with an exhaustive 3-ply mate classifier as oracle, over generated cache histories; oracle-steered generators (castling mates, en-passant evasions); libFuzzer campaign (fuzz_search) in the thorough tier",
   text="Positions classified M1/M2/avoidable-threat by exhaustive analysis (mate nets, minor-piece endings, game positions), searched on a live cache after 0..3 earlier searches of the same position at other depths; the chosen move must satisfy the class predicate (M1 and avoid-mate exactly; M2 = keeps a forced mate: only a provable loss of the mate is a violation).",
   note="Oracle predicates in vf/mate.rs; chosen move read from the search's own bestmove line.", ref="5 C12"),
 "C13": dict(cat="fault_enumeration", tech="fault enumeration: every node budget and every stop-at-k-th-write point of each search, against the prefix-of-uninterrupted-log invariant, plus randomised stops from a second thread",
   text="For each position/depth the search is re-run with EVERY node budget 1..S, with stop injected at every cache write, and with movetime and game-clock cuts; the interrupted run's cache-write log must be an element-wise prefix of the uninterrupted log, no write may follow the cut, and the cache contents left behind must equal what the log implies (so in-place modifications and writes past the insert sites are seen). This enumerates the interruption points the property quantifies over.",
   note="Assumes determinism (C16) and that hook H2 reports every insert; blind spot: a post-cut write identical in content and node count to the uninterrupted one.", ref="5 C13"),
 "C14": dict(cat="exploration", tech="property-based testing of the real engine's info output with a UCI grammar parser and PV replay on the rules oracle; game flows, a soak session and long searches",
   text="go depth N (N=1..5; 40 and 255 on a forced mate) and node/time-limited searches over generated positions, mate-net roots with either side to move, game-flow sessions (6-10 searches along a game in one process) and searches under an isready flood; every stdout line must be valid, depths must be 1..k without gaps or repeats (k == N for depth-only), every PV must replay legally.",
   note="Rules oracle for PV legality; mate distance not asserted.", ref="5 C14"),
 "C15": dict(cat="exploration", tech="grammar-based fuzzing of the UCI input with a liveness oracle (readyok, clean quit, exit on end-of-input); text-level mutation fuzzing in-process (blind in quick, coverage-guided libFuzzer in thorough) with a no-panic oracle",
   text="Sessions of 1..25 lines from a grammar over the UCI vocabulary with dropped/duplicated/reordered/junk arguments, blank, over-long, non-ASCII and non-UTF-8 lines; the engine must stay alive and responsive, quit cleanly and terminate on end-of-input at any point.",
   note="FEN arguments are always valid (the statement's assumption); 3 s stands in for 'promptly'.", ref="5 C15"),
 "C16": dict(cat="exploration", tech="repetition testing: equality of (best move, score, nodes) across repeated in-process runs, separate processes and CPU load, and of the bench node total; cold-start storm of thousands of fresh processes; searches under an isready flood",
   text="Fixed-depth searches (with and without game history) from an empty cache repeated in one process (with other searches in between), in separate processes, under busy-loop load and with one bench run frozen for 6 s (SIGSTOP = extreme load, deterministically); over UCI in fresh engine processes, after ucinewgame with the command loop held at schedule points, with the advertised options set, and one deep search in three concurrent processes; the real bench subcommand run concurrently; all results must be identical.",
   note="No oracle beyond equality; load is generated by the harness.", ref="5 C16"),
 "C17": dict(cat="exploration", tech="metamorphic property-based testing (colour mirror => equal, side swap => negated); libFuzzer campaign (fuzz_search) in the thorough tier",
   text="Synthesised positions with independent material per side, game positions and the corpus; eval(P) == eval(mirror(P)) and eval(P) == -eval(P with the other side to move) when that twin is valid.",
   note="Mirror is the oracle's; material within legal bounds so the evaluator's saturating arithmetic is not reached.", ref="5 C17"),
}
import os, sys
built = [l.strip() for l in open('/verif/tools/built.txt') if l.strip()]
props = [json.loads(l) for l in open('/verif/properties.jsonl')]
hooks = subprocess.run(['git','-C','/repo','log','--format=%h %s'],capture_output=True,text=True).stdout.strip().split('\n')
hook_commits = [h.split()[0] for h in hooks if h.split(' ',1)[1].startswith('verif hook')]
m = {
 "version": 1,
 "setup_cmd": "./check --setup",
 "hooks": {"guard": "rce_verif", "enable": "RUSTFLAGS=\"--cfg rce_verif\" (set by ./check for the harness build and for the engine-binary build)", "baseline_off_cmd": "cd /repo && cargo test --offline", "source_commits": hook_commits[::-1], "add_only": True},
 "engines": [
  {"name": "rce_check", "path": "harness/ (built into .build/ from a symlink farm over /repo/src)", "serves_properties": [p for p in built], "kind_free_text": "proptest 1.11 TestRunner with fixed ChaCha seed derived from VERIF_SEED + bounded exhaustive enumerators; independent rules oracle; sub-process sharding"},
  {"name": "process driver", "path": "harness/src/vf/uciproc.rs", "serves_properties": [p for p in built if p in ("C08","C09","C10","C14","C15","C16")], "kind_free_text": "drives the real engine binary (built from /repo/Cargo.toml with --cfg rce_verif) over stdin/stdout/stderr with timestamped lines"},
 ],
 "checks": [], "not_applicable": [],
 "notes": "exit 0 = held on everything explored; exit 1 + VIOLATION line = violation not listed in known_findings.txt; exit 2 = infrastructure problem / inconclusive. Replay: ./check <ID> --replay <file>. Fixed findings are listed in known_findings.txt (they suppress nothing).",
}
if os.path.isdir('/verif/harness/fuzz'):
    m["engines"].append({"name": "fuzz_play", "path": "harness/fuzz", "serves_properties": ["C01","C02","C03","C04","C07"], "kind_free_text": "cargo-fuzz/libFuzzer target whose bytes are decoded into the same generators; oracles run inside the target; used by the thorough tiers"})
    m["engines"].append({"name": "fuzz_uci", "path": "harness/fuzz", "serves_properties": ["C08","C15"], "kind_free_text": "cargo-fuzz/libFuzzer target whose bytes are the text of a UCI session; every line is classified by a strict oracle-side reading of the grammar (harness/src/vf/fuzzuci.rs) and the C08/C15 oracles run inside; used by the thorough tiers, the same oracle with blind mutations by the quick tiers"})
    m["engines"].append({"name": "fuzz_search", "path": "harness/fuzz", "serves_properties": ["C11","C12","C17"], "kind_free_text": "cargo-fuzz/libFuzzer target (16 independent -jobs processes sharing one corpus) whose bytes select depth / search history and are otherwise decoded like fuzz_play into a start position and a played line; the C11 differential, the C12 predicates and the C17 symmetry run inside (harness/src/vf/fuzzsearch.rs); used by the thorough tiers"})
for p in props:
    i = p["id"]
    if i in built:
        d = P[i]
        m["checks"].append({"property_id": i, "quick_cmd": f"./check {i} quick", "thorough_cmd": f"./check {i} thorough", "evidence_file": f"/verif/evidence/{i}.json",
          "replay_cmd_template": f"./check {i} --replay {{path}}", "engine": "process driver + rce_check" if i in ("C08","C09","C10","C14","C15","C16") else "rce_check",
          "level_claimed": {"category": d["cat"], "text": d["text"], "design_ref": "DESIGN.md section " + d["ref"]}, "level_note": d["note"], "technique": d["tech"]})
    else:
        m["not_applicable"].append({"property_id": i, "reason": "check under construction in this session (design in DESIGN.md section 5); not claimed until it runs clean"})
json.dump(m, open('/verif/MANIFEST.json','w'), indent=1)
print("checks:", [c["property_id"] for c in m["checks"]], "na:", [n["property_id"] for n in m["not_applicable"]])
