#!/usr/bin/env bash
# tools/mutant.sh <patch.diff> <ID> [<ID>...]   - run quick checks against a scratch copy of /repo with the patch applied
# tools/mutant.sh --clean                      - remove the scratch worktree and its build output
# Never touches /repo's working tree. Scratch: /tmp/rce-scratch (git worktree of /repo HEAD).
set -u
VERIF="$(cd "$(dirname "${BASH_SOURCE[0]}")/.." && pwd)"
S="${SCRATCH:-/tmp/rce-scratch}"
TAG="$(printf '%s' "$S" | md5sum | cut -c1-8)"
if [ "${1:-}" = "--clean" ]; then
  git -C /repo worktree remove --force "$S" 2>/dev/null; rm -rf "$S" "$VERIF/.build/"*"-$TAG"*; git -C /repo worktree prune; exit 0
fi
PATCH="$(realpath "$1")"; shift
if [ ! -d "$S" ]; then git -C /repo worktree add --detach "$S" HEAD >/dev/null 2>&1 || exit 2; fi
git -C "$S" checkout -q --detach "$(git -C /repo rev-parse HEAD)" 2>/dev/null
git -C "$S" checkout -q -- . && git -C "$S" clean -qfd -e target
git -C "$S" apply "$PATCH" || { echo "patch does not apply"; exit 2; }
rc_all=0
for id in "$@"; do
  t0=$(date +%s)
  out="$(VERIF_REPO="$S" VERIF_SEED="${VERIF_SEED:-1}" "$VERIF/check" "$id" "${TIER:-quick}" 2>&1)"; rc=$?
  t1=$(date +%s)
  echo "[$id rc=$rc $((t1-t0))s] $(echo "$out" | grep -E '^(DETAIL|VIOLATION|KNOWN|INFRA|OK|FAIL|INCONCLUSIVE)' | head -4 | cut -c1-400 | tr '\n' '|')"
  [ $rc -ne 0 ] && rc_all=$rc
done
git -C "$S" checkout -q -- . && git -C "$S" clean -qfd -e target
exit $rc_all
