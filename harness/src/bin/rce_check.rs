//! rce_check <ID> --tier quick|thorough [--seed N] [--shard i/n --out FILE] [--replay FILE]
//!           --verif DIR --repo DIR --engine PATH
use rce_verif::vf::frame::*;
use rce_verif::vf::{self, oracle};
use std::path::PathBuf;
use std::time::Instant;

fn main() {
    let args: Vec<String> = std::env::args().collect();
    if args.len() < 2 {
        eprintln!("usage: rce_check <ID|selftest> --tier quick|thorough ...");
        std::process::exit(2);
    }
    let prop = args[1].clone();
    let mut tier = match std::env::var("VERIF_TIER").ok().as_deref() {
        Some("thorough") => Tier::Thorough,
        _ => Tier::Quick,
    };
    let mut seed: u64 = std::env::var("VERIF_SEED").ok().and_then(|s| s.trim().parse().ok()).unwrap_or(1);
    let mut verif = PathBuf::from("/verif");
    let mut repo = PathBuf::from("/repo");
    let mut engine = PathBuf::new();
    let mut shard = None;
    let mut out_path: Option<PathBuf> = None;
    let mut replay: Option<PathBuf> = None;
    let mut i = 2;
    while i < args.len() {
        let a = args[i].as_str();
        let val = args.get(i + 1).cloned().unwrap_or_default();
        match a {
            "--tier" => tier = if val == "thorough" { Tier::Thorough } else { Tier::Quick },
            "--seed" => seed = val.parse().unwrap_or(1),
            "--verif" => verif = PathBuf::from(&val),
            "--repo" => repo = PathBuf::from(&val),
            "--engine" => engine = PathBuf::from(&val),
            "--shard" => {
                let (a, b) = val.split_once('/').unwrap_or(("0", "1"));
                shard = Some((a.parse().unwrap_or(0), b.parse().unwrap_or(1)));
            }
            "--out" => out_path = Some(PathBuf::from(&val)),
            "--replay" => replay = Some(PathBuf::from(&val)),
            _ => {
                eprintln!("unknown argument {a}");
                std::process::exit(2);
            }
        }
        i += 2;
    }
    redirect_stdout();
    install_quiet_panic_hook();
    let started = Instant::now();
    // harness watchdog: a run that exceeds its wall-clock budget is inconclusive (exit 2),
    // never a violation
    {
        let limit = std::env::var("VERIF_WATCHDOG_S").ok().and_then(|s| s.parse().ok()).unwrap_or(match tier {
            Tier::Quick => 1500u64,
            Tier::Thorough => 4 * 3600,
        });
        let is_shard = shard.is_some();
        std::thread::spawn(move || {
            std::thread::sleep(std::time::Duration::from_secs(limit));
            if !is_shard {
                out(&format!("INFRA: harness watchdog: run exceeded {limit} s; inconclusive"));
            }
            std::process::exit(2);
        });
    }
    if prop == "selftest" {
        match oracle::self_test(true) {
            Ok(()) => {
                out(&format!("oracle self-test passed ({:.1}s)", started.elapsed().as_secs_f64()));
                std::process::exit(0);
            }
            Err(e) => {
                out(&format!("INFRA: oracle self-test failed: {e}"));
                std::process::exit(2);
            }
        }
    }
    let ctx = Ctx {
        prop: prop.clone(),
        tier,
        seed,
        known: load_known(&verif),
        verif,
        repo,
        engine,
        self_exe: std::env::current_exe().unwrap_or_else(|_| PathBuf::from(&args[0])),
        shard,
        replay: replay.is_some(),
    };
    let Some(p) = vf::lookup(&prop) else {
        out(&format!("INFRA: unknown property {prop}"));
        std::process::exit(2);
    };
    // shard child: run, write the report, done
    if ctx.shard.is_some() {
        let rep = match guard(|| (p.run)(&ctx)) {
            Ok(r) => r,
            Err(e) => {
                let mut r = Report::new();
                r.infra_errors.push(format!("shard panicked: {e}"));
                r
            }
        };
        if let Some(o) = out_path {
            let _ = rep.write_files(&o);
        }
        std::process::exit(0);
    }
    if let Err(e) = oracle::self_test(false) {
        out(&format!("INFRA: oracle self-test failed: {e}"));
        std::process::exit(2);
    }
    let rep = if let Some(path) = &replay {
        let text = std::fs::read_to_string(path).unwrap_or_default();
        let v: serde_json::Value = match serde_json::from_str(&text) {
            Ok(v) => v,
            Err(e) => {
                out(&format!("INFRA: cannot parse replay file: {e}"));
                std::process::exit(2);
            }
        };
        let case = if v.get("case").is_some() { v["case"].clone() } else { v };
        // a raw libFuzzer artifact wrapped in JSON: re-judged through the byte decoder
        if let Some(hex) = case["raw_hex"].as_str() {
            let bytes: Vec<u8> = (0..hex.len() / 2).filter_map(|i| u8::from_str_radix(&hex[2 * i..2 * i + 2], 16).ok()).collect();
            let rep = match prop.as_str() {
                "C08" | "C15" => vf::fuzzuci::replay_raw(&prop, &bytes),
                "C11" | "C12" | "C17" => vf::fuzzsearch::replay_raw(&prop, &bytes),
                _ => vf::fuzzplay::replay_raw(&prop, &bytes),
            };
            let v = finish(&ctx, p.level, p.rule, p.assumptions, rep, started);
            std::process::exit(v.exit_code);
        }
        match guard(|| (p.replay)(&ctx, &case)) {
            Ok(r) => r,
            Err(e) => {
                let mut r = Report::new();
                r.infra_errors.push(format!("replay panicked in the harness: {e}"));
                r
            }
        }
    } else {
        match guard(|| (p.run)(&ctx)) {
            Ok(r) => r,
            Err(e) => {
                let mut r = Report::new();
                r.infra_errors.push(format!("harness panicked: {e}"));
                r
            }
        }
    };
    let v = finish(&ctx, p.level, p.rule, p.assumptions, rep, started);
    std::process::exit(v.exit_code);
}
