//! C06 - attack tables are exact for every square and every occupancy.
//!
//! Complete enumeration (both tiers): 64 squares x all subsets of the squares on the
//! piece's lines for rook, bishop and queen; all 64 squares for knight, king and both
//! pawn colours.  Plus proptest-generated full-board occupancies and `Kind::get_attacks`
//! through FEN-built boards.  Oracle: coordinate ray walk / offset lists (independent of
//! the engine's RAYS and get_attacks_slow, from which its tables are filled).

use super::frame::*;
use super::oracle as o;
use super::{corpus, eng, gen};
use crate::board::bitboard::Bitboard;
use crate::board::piece::bishop::Bishop;
use crate::board::piece::queen::Queen;
use crate::board::piece::rook::Rook;
use crate::board::piece::{Color, Kind};
use crate::board::Board;
use proptest::prelude::*;
use serde_json::{json, Value};

const ROOK_D: [(i32, i32); 4] = [(1, 0), (0, 1), (-1, 0), (0, -1)];
const BISHOP_D: [(i32, i32); 4] = [(1, 1), (-1, 1), (-1, -1), (1, -1)];

fn on(f: i32, r: i32) -> bool {
    (0..8).contains(&f) && (0..8).contains(&r)
}

pub fn ref_slider(s: usize, occ: u64, dirs: &[(i32, i32)]) -> u64 {
    let (f, r) = ((s % 8) as i32, (s / 8) as i32);
    let mut a = 0u64;
    for &(df, dr) in dirs {
        let (mut nf, mut nr) = (f + df, r + dr);
        while on(nf, nr) {
            let t = (nr * 8 + nf) as u64;
            a |= 1 << t;
            if occ & (1 << t) != 0 {
                break;
            }
            nf += df;
            nr += dr;
        }
    }
    a
}

pub fn ref_leaper(s: usize, offs: &[(i32, i32)]) -> u64 {
    let (f, r) = ((s % 8) as i32, (s / 8) as i32);
    let mut a = 0u64;
    for &(df, dr) in offs {
        if on(f + df, r + dr) {
            a |= 1 << ((r + dr) * 8 + f + df);
        }
    }
    a
}

fn line_squares(s: usize, dirs: &[(i32, i32)]) -> Vec<usize> {
    let m = ref_slider(s, 0, dirs);
    (0..64).filter(|&t| m & (1 << t) != 0).collect()
}

#[derive(Clone, Copy, Debug, PartialEq, Eq)]
pub enum Pc {
    Rook,
    Bishop,
    Queen,
    Knight,
    King,
    WPawn,
    BPawn,
}
impl Pc {
    fn name(self) -> &'static str {
        match self {
            Pc::Rook => "rook",
            Pc::Bishop => "bishop",
            Pc::Queen => "queen",
            Pc::Knight => "knight",
            Pc::King => "king",
            Pc::WPawn => "wpawn",
            Pc::BPawn => "bpawn",
        }
    }
    fn from_name(s: &str) -> Option<Pc> {
        Some(match s {
            "rook" => Pc::Rook,
            "bishop" => Pc::Bishop,
            "queen" => Pc::Queen,
            "knight" => Pc::Knight,
            "king" => Pc::King,
            "wpawn" => Pc::WPawn,
            "bpawn" => Pc::BPawn,
            _ => return None,
        })
    }
}

const KNIGHT_D: [(i32, i32); 8] = [(1, 2), (2, 1), (2, -1), (1, -2), (-1, -2), (-2, -1), (-2, 1), (-1, 2)];
const KING_D: [(i32, i32); 8] = [(1, 0), (1, 1), (0, 1), (-1, 1), (-1, 0), (-1, -1), (0, -1), (1, -1)];

pub fn reference(pc: Pc, s: usize, occ: u64) -> u64 {
    match pc {
        Pc::Rook => ref_slider(s, occ, &ROOK_D),
        Pc::Bishop => ref_slider(s, occ, &BISHOP_D),
        Pc::Queen => ref_slider(s, occ, &ROOK_D) | ref_slider(s, occ, &BISHOP_D),
        Pc::Knight => ref_leaper(s, &KNIGHT_D),
        Pc::King => ref_leaper(s, &KING_D),
        Pc::WPawn => ref_leaper(s, &[(-1, 1), (1, 1)]),
        Pc::BPawn => ref_leaper(s, &[(-1, -1), (1, -1)]),
    }
}

/// The engine's answer through its direct table interfaces (sliders) or through
/// `Kind::get_attacks` on an otherwise irrelevant board (leapers).
pub fn engine_direct(pc: Pc, s: usize, occ: u64, any_board: &Board) -> Result<u64, String> {
    let sq = eng::esq(s);
    guard(|| match pc {
        Pc::Rook => *Rook::get_attacks_wrapper(sq, Bitboard::new(occ)),
        Pc::Bishop => *Bishop::get_attacks_wrapper(sq, Bitboard::new(occ)),
        Pc::Queen => *Queen::get_attacks(sq, Bitboard::new(occ)),
        Pc::Knight => *Kind::Knight(Color::White).get_attacks(sq, any_board),
        Pc::King => *Kind::King(Color::White).get_attacks(sq, any_board),
        Pc::WPawn => *Kind::Pawn(Color::White).get_attacks(sq, any_board),
        Pc::BPawn => *Kind::Pawn(Color::Black).get_attacks(sq, any_board),
    })
}

fn case_json(pc: Pc, s: usize, occ: u64) -> Value {
    json!({"kind":"direct","piece": pc.name(), "square": o::sq_name(s), "occupancy": format!("{occ:#018x}")})
}

fn check_direct(pc: Pc, s: usize, occ: u64, board: &Board, rep: &mut Report) -> Result<(), Violation> {
    rep.eval(1);
    let want = reference(pc, s, occ);
    let lines = match pc {
        Pc::Rook | Pc::Bishop | Pc::Queen => reference(pc, s, 0),
        _ => 0,
    };
    if occ & lines != 0 {
        rep.nontrivial(o::hash_bytes(&occ.to_le_bytes(), (s as u64) << 8 | pc as u64));
    }
    match engine_direct(pc, s, occ, board) {
        Ok(got) if got == want => Ok(()),
        Ok(got) => Err(Violation::new(
            "exact",
            &format!("exact/{}/wrong-set", pc.name()),
            format!("{} on {} occupancy {occ:#018x}: engine {got:#018x}, rules {want:#018x}", pc.name(), o::sq_name(s)),
            case_json(pc, s, occ),
        )),
        Err(p) => Err(Violation::new(
            "exact",
            &format!("exact/{}/panic", pc.name()),
            format!("{} on {} occupancy {occ:#018x}: engine panicked: {p}", pc.name(), o::sq_name(s)),
            case_json(pc, s, occ),
        )),
    }
}

fn subsets_exhaustive(pc: Pc, dirs: &[(i32, i32)], board: &Board, rep: &mut Report, ctx: &Ctx) {
    let mut first_err: Option<Violation> = None;
    let mut count = 0u64;
    for s in 0..64usize {
        let ls = line_squares(s, dirs);
        let n = ls.len();
        for idx in 0u32..(1u32 << n) {
            let mut occ = 0u64;
            for (i, &t) in ls.iter().enumerate() {
                if idx & (1 << i) != 0 {
                    occ |= 1 << t;
                }
            }
            // also with the piece's own square occupied (as it is on a real board)
            for own in [0u64, 1u64 << s] {
                count += 1;
                if let Err(v) = check_direct(pc, s, occ | own, board, rep) {
                    if ctx.is_known(&v.sig).is_some() {
                        rep.known(&v.sig, "");
                    } else if first_err.is_none() {
                        first_err = Some(v);
                    }
                }
            }
        }
    }
    rep.class_n(&format!("{}:line-subsets", pc.name()), count);
    if let Some(v) = first_err {
        rep.violation(v);
    }
}

fn board_case(fen: &str, rep: &mut Report) -> Result<(), Violation> {
    let p = match o::Pos::from_fen(fen) {
        Ok(p) => p,
        Err(_) => return Ok(()),
    };
    let board = match guard(|| Board::from_fen(fen)) {
        Ok(b) => b,
        Err(_) => return Ok(()), // FEN loading is C07's subject
    };
    let mut occ = 0u64;
    for s in 0..64 {
        if p.sq[s] != 0 {
            occ |= 1 << s;
        }
    }
    for s in 0..64usize {
        let c = p.sq[s];
        if c == 0 {
            continue;
        }
        rep.eval(1);
        let pc = match (o::pt(c), o::is_white(c)) {
            (o::P, true) => Pc::WPawn,
            (o::P, false) => Pc::BPawn,
            (o::N, _) => Pc::Knight,
            (o::B, _) => Pc::Bishop,
            (o::R, _) => Pc::Rook,
            (o::Q, _) => Pc::Queen,
            _ => Pc::King,
        };
        let want = reference(pc, s, occ);
        let kind = eng::code_kind(c);
        let got = guard(|| *kind.get_attacks(eng::esq(s), &board));
        if matches!(pc, Pc::Rook | Pc::Bishop | Pc::Queen) && reference(pc, s, 0) & occ != 0 {
            rep.nontrivial(o::hash_bytes(&occ.to_le_bytes(), 0xB0A2D | (s as u64) << 24 | (pc as u64) << 32));
        }
        let fail = match &got {
            Ok(g) => *g != want,
            Err(_) => true,
        };
        if fail {
            return Err(Violation::new(
                "through-board",
                &format!("through-board/{}/wrong-set", pc.name()),
                format!("{} on {} in {fen}: engine {:?}, rules {want:#018x}", pc.name(), o::sq_name(s), got),
                json!({"kind":"board","fen":fen,"square":o::sq_name(s)}),
            ));
        }
    }
    Ok(())
}

pub fn run(ctx: &Ctx) -> Report {
    let mut rep = Report::new();
    let board = Board::default();
    // (a) complete enumeration of line subsets for the sliders
    subsets_exhaustive(Pc::Rook, &ROOK_D, &board, &mut rep, ctx);
    subsets_exhaustive(Pc::Bishop, &BISHOP_D, &board, &mut rep, ctx);
    // queen: all subsets of the rook lines x (empty diagonals), all subsets of the
    // diagonals x (empty rook lines): every line entry of both tables through Queen
    subsets_exhaustive(Pc::Queen, &ROOK_D, &board, &mut rep, ctx);
    subsets_exhaustive(Pc::Queen, &BISHOP_D, &board, &mut rep, ctx);
    // (b) leapers, all 64 squares, full and empty occupancy (must not matter)
    let mut first: Option<Violation> = None;
    for pc in [Pc::Knight, Pc::King, Pc::WPawn, Pc::BPawn] {
        for s in 0..64 {
            if let Err(v) = check_direct(pc, s, 0, &board, &mut rep) {
                first.get_or_insert(v);
            }
            rep.nontrivial(o::hash_bytes(&[s as u8, pc as u8], 0x1EA9));
        }
        rep.class_n(&format!("{}:squares", pc.name()), 64);
    }
    if let Some(v) = first {
        rep.violation(v);
    }
    rep.exhaustive = Some(true);
    rep.sample(|| case_json(Pc::Rook, 27, 0x0000_0008_1400_0800));
    rep.sample(|| case_json(Pc::Bishop, 36, 0x0040_2000_0000_0200));
    rep.sample(|| case_json(Pc::Knight, 7, 0));

    // (c) proptest: random full-board occupancies of varied density
    let cases = ctx.tier.pick(700, 40_000);
    let strat = (proptest::collection::vec(any::<u64>(), 8), proptest::collection::vec(0u8..4, 8));
    run_prop(ctx, "c06-random", cases, 4096, strat, &mut rep, |(words, dens), rep| {
        for i in 0..8 {
            // density: AND/OR-combine consecutive words
            let a = words[i];
            let b = words[(i + 1) % 8];
            let c = words[(i + 3) % 8];
            let occ = match dens[i] {
                0 => a & b & c,
                1 => a & b,
                2 => a,
                _ => a | b,
            };
            for s in 0..64 {
                for pc in [Pc::Rook, Pc::Bishop, Pc::Queen] {
                    check_direct(pc, s, occ, &board, rep)?;
                }
            }
            rep.class(match dens[i] {
                0 => "random:density-1/8",
                1 => "random:density-1/4",
                2 => "random:density-1/2",
                _ => "random:density-3/4",
            });
            if i == 0 {
                rep.sample(|| case_json(Pc::Queen, (a % 64) as usize, occ));
            }
        }
        Ok(())
    });

    // (d) through FEN-built boards: corpus + synthesised positions
    let corp = corpus::load(&ctx.verif);
    let mut first: Option<Violation> = None;
    for fen in &corp.fens {
        if let Err(v) = board_case(fen, &mut rep) {
            first.get_or_insert(v);
        }
        rep.class("board:corpus");
    }
    if let Some(v) = first {
        rep.violation(v);
    }
    let cases = ctx.tier.pick(3000, 100_000);
    run_prop(ctx, "c06-boards", cases, 2048, gen::synth_strategy(), &mut rep, |ent, rep| {
        if let Some(p) = gen::synth_pos(&mut Entropy::new(ent)) {
            rep.class("board:synth");
            let fen = p.to_fen();
            rep.sample_for("board", || json!({"kind":"board","fen":fen}));
            board_case(&fen, rep)?;
        }
        Ok(())
    });
    rep
}

pub fn replay(_ctx: &Ctx, case: &Value) -> Report {
    let mut rep = Report::new();
    let board = Board::default();
    let res = match case["kind"].as_str() {
        Some("direct") => {
            let pc = Pc::from_name(case["piece"].as_str().unwrap_or("")).unwrap_or(Pc::Rook);
            let s = o::parse_sq(case["square"].as_str().unwrap_or("a1")).unwrap_or(0);
            let occ = u64::from_str_radix(case["occupancy"].as_str().unwrap_or("0x0").trim_start_matches("0x"), 16).unwrap_or(0);
            check_direct(pc, s, occ, &board, &mut rep)
        }
        Some("board") => board_case(case["fen"].as_str().unwrap_or(""), &mut rep),
        _ => {
            rep.infra_errors.push("unknown replay kind".into());
            Ok(())
        }
    };
    if let Err(v) = res {
        rep.violation(v);
    }
    rep
}

pub const LEVEL: &str = "exploration";
pub const RULE: &str = "complete enumeration of 64 squares x all subsets of the squares on the piece's lines (rook 2^14/square, bishop 2^7..2^13, queen on both line families; each with and without the own square set) + 64 squares x {knight, king, white pawn, black pawn}; plus proptest-generated full-board occupancies (4 densities) for rook/bishop/queen on all 64 squares and Kind::get_attacks through FEN-built corpus/synthesised boards. Non-trivial = at least one blocker on one of the piece's lines (leapers: every square); distinct by (piece, square, occupancy).";
pub const ASSUMPTIONS: &[&str] = &[
    "reference = coordinate ray walk / offset lists written for this harness (independent of the engine's RAYS and get_attacks_slow)",
    "exhaustive=true refers to parts (a) and (b): the line-subset space and the leaper squares; parts (c),(d) are sampled",
];
