//! Byte-driven search cases: the decoder behind the libFuzzer target `fuzz_search` and
//! behind `rce_check C11|C12|C17 --replay <raw artifact>`.  Byte 0 selects the depth /
//! search history, the rest is decoded exactly like `fuzz_play` (start position from the
//! shared generators, then a played line); the C11 (reference minimax), C12 (mate
//! predicates on a live cache) and C17 (evaluation symmetry) oracles run on the position
//! reached.

use super::frame::*;
use super::oracle::{Game, Pos};
use super::{c11, c12, c17, fuzzplay};
use serde_json::{json, Value};

pub struct Decoded {
    pub start_fen: String,
    pub moves: Vec<String>,
    pub sel: u8,
}

pub fn decode(data: &[u8]) -> Option<Decoded> {
    if data.len() < 9 {
        return None;
    }
    let sel = data[0];
    let d = fuzzplay::decode(&data[1..])?;
    let start = Pos::from_fen(&d.start_fen).ok()?;
    let mut game = Game::new(start);
    for e in &d.script {
        if let Some(u) = e.strip_prefix("make ") {
            let Some(m) = game.cur.find_legal(u) else { break };
            game.play(m);
        } else if e == "unmake" {
            game.undo();
        }
        if game.moves.len() >= 40 {
            break;
        }
    }
    Some(Decoded { start_fen: d.start_fen, moves: game.moves_uci(), sel })
}

/// Cheap cases only: the campaign lives on executions per second.
fn depth_for(root: &Pos, sel: u8) -> u32 {
    let b = root.legal_moves().len().max(1);
    match sel % 4 {
        0 => 1,
        1 | 2 => 2,
        _ => {
            if b <= 6 {
                4
            } else if b <= 14 {
                3
            } else {
                2
            }
        }
    }
}

pub fn run_bytes(data: &[u8], props: &str, rep: &mut Report) -> Result<(), (String, Violation)> {
    let Some(d) = decode(data) else { return Ok(()) };
    let all = props.is_empty();
    let want = |p: &str| all || props.contains(p);
    let Ok(start) = Pos::from_fen(&d.start_fen) else { return Ok(()) };
    let mut game = Game::new(start);
    for u in &d.moves {
        let Some(m) = game.cur.find_legal(u) else { return Ok(()) };
        game.play(m);
    }
    let root = game.cur.clone();
    if root.legal_moves().is_empty() {
        return Ok(());
    }
    if want("C17") {
        c17::check_pos(&root, rep).map_err(|v| ("C17".to_string(), v))?;
    }
    if want("C11") {
        let depth = depth_for(&root, d.sel);
        let budget = 30_000;
        c11::SENSITIVITY.store(false, std::sync::atomic::Ordering::Relaxed);
        match c11::compare(&d.start_fen, &d.moves, depth, budget, rep) {
            Ok(o) => {
                if let Some(s) = o.skipped {
                    rep.class(&format!("fuzz-skipped:{s}"));
                }
            }
            Err(v) => return Err(("C11".to_string(), v)),
        }
    }
    if want("C12") && root.legal_moves().len() <= 40 {
        // "given without prior history and with a small half-move clock"
        let mut p = root.clone();
        p.hmc = p.hmc.min(20);
        let depths: Vec<u8> = match (d.sel >> 3) % 8 {
            0 | 1 => vec![3],
            2 => vec![4],
            3 => vec![1, 3],
            4 => vec![2, 3],
            5 => vec![4, 3],
            6 => vec![3, 3],
            _ => vec![1, 2, 3, 4],
        };
        c12::check_position(&p, &depths, rep).map_err(|v| ("C12".to_string(), v))?;
    }
    Ok(())
}

pub fn fuzz_one(data: &[u8]) {
    let props = std::env::var("RCE_FUZZ_PROPS").unwrap_or_default();
    let mut rep = Report::new();
    let r = run_bytes(data, &props, &mut rep);
    let _ = drain_stdout();
    if !rep.infra_errors.is_empty() {
        // a fault of the reference itself is not a finding; the release-mode re-judging
        // reports it as an infrastructure error
        return;
    }
    if let Err((p, v)) = r {
        let known = std::env::var("RCE_FUZZ_KNOWN").unwrap_or_default();
        if known.split(',').any(|k| !k.is_empty() && k == format!("{p}:{}", v.sig)) {
            return;
        }
        eprintln!("FUZZ-VIOLATION property={p} sig={} {}", v.sig, v.detail);
        std::process::abort();
    }
}

pub fn replay_raw(prop: &str, data: &[u8]) -> Report {
    let mut rep = Report::new();
    rep.eval(1);
    let r = run_bytes(data, prop, &mut rep);
    let _ = drain_stdout();
    if let Err((p, mut v)) = r {
        if p == prop {
            v.replay = json!({"raw_hex": data.iter().map(|b| format!("{b:02x}")).collect::<String>(), "decoded": decode(data).map(|d| json!({"start_fen": d.start_fen, "moves": d.moves, "sel": d.sel})), "inner": v.replay});
            rep.violation(v);
        }
    }
    rep
}

pub fn nontrivial(_prop: &str, data: &[u8]) -> bool {
    decode(data).is_some()
}

pub fn sample_json(data: &[u8]) -> Value {
    match decode(data) {
        Some(d) => json!({"layer": "libfuzzer-search-case", "start_fen": d.start_fen, "moves": d.moves.join(" "), "selector": d.sel}),
        None => json!({"layer": "libfuzzer-search-case", "undecodable_bytes": data.len()}),
    }
}

/// Thorough-tier layer: coverage-guided campaign on the `fuzz_search` target.
pub fn campaign(ctx: &Ctx, prop: &str, rep: &mut Report) {
    // seeds: the fuzz_play seed files with a selector byte in front
    let dir = ctx.scratch().join(format!("fuzzsearch-seeds-{}-{}", prop, std::process::id()));
    let _ = std::fs::create_dir_all(&dir);
    let mut n = 0u64;
    if let Ok(rd) = std::fs::read_dir(ctx.verif.join("corpus").join("fuzz_play")) {
        for (i, f) in rd.flatten().enumerate() {
            if let Ok(data) = std::fs::read(f.path()) {
                for sel in [1u8, 4, 7 + 8 * 3] {
                    let mut v = vec![sel];
                    v.extend_from_slice(&data);
                    if std::fs::write(dir.join(format!("seed-{i:03}-{sel}")), v).is_ok() {
                        n += 1;
                    }
                }
            }
        }
    }
    rep.class_n("libfuzzer:seed-files", n);
    let t = fuzzplay::Target { bin_env: "RCE_FUZZ_SEARCH_BIN", max_len: 200, seed_dir: dir.clone(), dict: None, replay: replay_raw, nontrivial, sample: Some(sample_json), jobs_mode: true };
    fuzzplay::campaign_on(ctx, prop, rep, &t);
    let _ = std::fs::remove_dir_all(&dir);
}
