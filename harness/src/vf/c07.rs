//! C07 - loading a FEN yields exactly the position the FEN describes, and it then
//! behaves like the same position reached by play.

use super::c01;
use super::c03::pos_diff;
use super::frame::*;
use super::oracle::{self as o, Game, Mv, Pos};
use super::{corpus, eng, gen};
use crate::board::zkey::ZKey;
use crate::board::Board;
use proptest::prelude::*;
use serde_json::{json, Value};

fn fen_features(p: &Pos, four: bool) -> Vec<&'static str> {
    let mut v = vec![];
    if p.cr.iter().any(|&b| b) {
        v.push("castling-flags");
    }
    if p.ep.is_some() {
        v.push("ep-square");
    }
    if !four && (p.hmc != 0 || p.fmn != 1) {
        v.push("non-default-counters");
    }
    if !p.wtm {
        v.push("black-to-move");
    }
    if four {
        v.push("4-field");
    }
    v
}

/// (1) field by field against the oracle's own reader of the same string
pub fn check_fields(fen: &str, rep: &mut Report) -> Result<Option<(Pos, Board)>, Violation> {
    let Ok(want) = Pos::from_fen(fen) else { return Ok(None) };
    rep.eval(1);
    let board = match guard(|| Board::from_fen(fen)) {
        Ok(b) => b,
        Err(pm) => {
            return Err(Violation::new("fields", &format!("fields/panic/{}", panic_site(&pm)), format!("from_fen panicked on valid FEN '{fen}': {pm}"), json!({"fen": fen})));
        }
    };
    let got = eng::snapshot(&board);
    let d = pos_diff(&got, &want);
    if !d.is_empty() {
        return Err(Violation::new(
            "fields",
            &format!("fields/{}", d.join("+")),
            format!("'{fen}' loads as '{}' (differs in {})", got.to_fen(), d.join(",")),
            json!({"fen": fen}),
        ));
    }
    if !eng::remembered(&board).is_empty() {
        return Err(Violation::new("fields", "fields/remembered-not-empty", format!("'{fen}' loads with earlier positions remembered"), json!({"fen": fen})));
    }
    let scratch = eng::key_u64(ZKey::from(&board));
    if eng::key_u64(board.zkey) != scratch {
        return Err(Violation::new("fields", "fields/key", format!("'{fen}' loads with a key different from the from-scratch key"), json!({"fen": fen})));
    }
    Ok(Some((want, board)))
}

/// (2) behaves identically from then on: lock-step with the oracle (and the played twin
/// when there is one)
pub fn check_behaviour(fen: &str, p0: &Pos, loaded: &Board, twin: Option<&Board>, walk: &[u16], rep: &mut Report) -> Result<(), Violation> {
    let case = |path: &[String]| json!({"fen": fen, "moves": path, "twin": twin.is_some()});
    let mut path: Vec<String> = vec![];
    let mut p = p0.clone();
    let mut lb = loaded.clone();
    let mut tb = twin.cloned();
    for step in 0..=walk.len() {
        // legal moves, check status, move effects, flags
        c01::check_node(&p, &lb, fen, &path).map_err(|mut v| {
            v.sig = format!("behaviour/{}", v.sig);
            v.clause = "behaviour".into();
            v.replay = case(&path);
            v
        })?;
        rep.eval(1);
        let snap = eng::snapshot(&lb);
        let d = pos_diff(&snap, &p);
        if !d.is_empty() {
            return Err(Violation::new("behaviour", &format!("behaviour/state/{}", d.join("+")), format!("after [{}] from loaded '{fen}': engine {} vs rules {}", path.join(" "), snap.to_fen(), p.to_fen()), case(&path)));
        }
        if let Some(t) = &tb {
            if t.zkey != lb.zkey {
                return Err(Violation::new("behaviour", "behaviour/key-vs-played", format!("after [{}]: key of the FEN-loaded board differs from the key of the same position reached by play ('{fen}')", path.join(" ")), case(&path)));
            }
            let ts = eng::snapshot(t);
            if ts != snap {
                return Err(Violation::new("behaviour", "behaviour/state-vs-played", format!("after [{}]: loaded board {} vs played twin {}", path.join(" "), snap.to_fen(), ts.to_fen()), case(&path)));
            }
        }
        // make/unmake of every legal move on the loaded board returns to its snapshot
        // (exercises the fabricated undo record behind an e.p. FEN)
        if step == 0 {
            let before = lb.clone();
            for ply in eng::legal_on_clone(&lb) {
                let r = guard(|| {
                    lb.make_move(ply);
                    lb.unmake_move();
                });
                if r.is_err() || lb != before {
                    lb = before.clone();
                    return Err(Violation::new("behaviour", "behaviour/roundtrip", format!("make+unmake of {} on the board loaded from '{fen}' does not restore it", eng::ply_uci(&ply)), case(&path)));
                }
            }
        }
        if step == walk.len() {
            break;
        }
        let legal = p.legal_moves();
        if legal.is_empty() {
            break;
        }
        let m = legal[pick16(walk[step], legal.len())];
        let u = m.uci();
        let Some(ply) = eng::find_ply(&lb, &u) else { break };
        if let Err(pm) = guard(|| lb.make_move(ply)) {
            path.push(u.clone());
            return Err(Violation::new("behaviour", &format!("behaviour/panic/{}", panic_site(&pm)), format!("make_move({u}) panicked on board loaded from '{fen}': {pm}"), case(&path)));
        }
        if let Some(t) = tb.as_mut() {
            if let Some(tp) = eng::find_ply(t, &u) {
                t.make_move(tp);
            } else {
                tb = None;
            }
        }
        p = p.make(m);
        path.push(u);
    }
    Ok(())
}

#[derive(Clone, Debug)]
pub struct FenCase {
    pub game: gen::GameCase,
    pub four: bool,
    /// how much of the generated game is played before the FEN is taken
    pub play: u8,
    pub walk: Vec<u16>,
}

pub fn strategy() -> impl Strategy<Value = FenCase> {
    (gen::game_strategy(60), 0u8..4, 0u8..4, proptest::collection::vec(any::<u16>(), 0..=12)).prop_map(|(game, f, play, walk)| FenCase { game, four: f == 0, play, walk })
}

pub fn fen_case(c: &FenCase, corp: &corpus::Corpus, rep: &mut Report) -> Result<(), Violation> {
    let mix = gen::StartMix { startpos: 2, corpus: 3, synth: 8, pattern: 3 };
    let Some((start, label)) = gen::start_pos(&c.game.start, corp, mix) else {
        rep.class("start:rejected");
        return Ok(());
    };
    // play a game to obtain a position with a "played twin"
    let start_fen = start.to_fen();
    let mut twin = guard(|| Board::from_fen(&start_fen)).ok();
    let mut game = Game::new(start);
    let plies = match c.play {
        0 => 0,
        1 => 2,
        2 => 6,
        _ => usize::MAX,
    };
    for &ch in c.game.choices.iter().take(plies) {
        let legal = game.cur.legal_moves();
        if legal.is_empty() {
            break;
        }
        let m = gen::choose_move(&game, &legal, c.game.weighted, ch);
        if let Some(t) = twin.as_mut() {
            match eng::find_ply(t, &m.uci()) {
                Some(ply) => t.make_move(ply),
                None => twin = None,
            }
        }
        game.play(m);
    }
    let p = game.cur.clone();
    let fen = if c.four { p.to_fen4() } else { p.to_fen() };
    let feats = fen_features(&p, c.four);
    for f in &feats {
        rep.class(&format!("fen:{f}"));
    }
    rep.class(if game.moves.is_empty() { "fen:of-start" } else { "fen:of-played-position" });
    if !feats.is_empty() {
        rep.nontrivial(o::hash_str(&fen));
    }
    rep.sample(|| json!({"fen": fen, "from": label, "plies_played": game.moves.len()}));
    let Some((want, board)) = check_fields(&fen, rep)? else { return Ok(()) };
    // the twin has the real clocks; a 4-field load has default ones, so the twin is only
    // comparable for 6-field strings
    let twin_ref = if c.four { None } else { twin.as_ref() };
    check_behaviour(&fen, &want, &board, twin_ref, &c.walk, rep)
}

pub const SHARDS: usize = 16;

pub fn run(ctx: &Ctx) -> Report {
    if ctx.shard.is_none() {
        let mut rep = run_sharded(ctx, SHARDS, SHARDS);
        if ctx.tier == Tier::Thorough {
            super::fuzzplay::campaign(ctx, "C07", &mut rep);
        }
        return rep;
    }
    let mut rep = Report::new();
    let corp = corpus::load(&ctx.verif);
    // all 16 castling-flag subsets x both sides x e.p. on home-placed positions (constructed)
    if ctx.shard_index() == 0 {
        for stm in ["w", "b"] {
            for mask in 0..16u32 {
                let mut q = Pos::from_fen(&format!("r3k2r/pppp1ppp/8/4p3/4P3/8/PPPP1PPP/R3K2R {stm} - - 0 1")).unwrap();
                for i in 0..4 {
                    q.cr[i] = mask & (1 << i) != 0;
                }
                for ep in [false, true] {
                    if ep {
                        q.ep = Some(4);
                        q.hmc = 0;
                    }
                    for four in [false, true] {
                        let fen = if four { q.to_fen4() } else { q.to_fen() };
                        rep.class("fen:flag-subset-table");
                        rep.nontrivial(o::hash_str(&fen));
                        let r = check_fields(&fen, &mut rep).and_then(|x| match x {
                            Some((want, board)) => check_behaviour(&fen, &want, &board, None, &[7, 40000, 123], &mut rep),
                            None => Ok(()),
                        });
                        if let Err(v) = r {
                            rep.violation(v);
                        }
                    }
                }
            }
        }
        for (i, fen) in corp.fens.iter().enumerate() {
            let r = check_fields(fen, &mut rep);
            rep.class("fen:corpus");
            if let Err(v) = r {
                rep.violation(v);
            }
            // the same placement with other counters (a position can be revisited later in a game)
            if corp.positions[i].ep.is_none() {
                for (h, f) in [(4u32, 3u32), (99, 60), (37, 1200)] {
                    let mut q = corp.positions[i].clone();
                    q.hmc = h;
                    q.fmn = f;
                    let fen2 = q.to_fen();
                    rep.class("fen:corpus-other-counters");
                    rep.nontrivial(o::hash_str(&fen2));
                    let r = check_fields(&fen2, &mut rep).and_then(|x| match x {
                        Some((want, board)) => check_behaviour(&fen2, &want, &board, None, &[9, 30000], &mut rep),
                        None => Ok(()),
                    });
                    if let Err(v) = r {
                        rep.violation(v);
                    }
                }
            }
        }
    }
    // many pieces with few neighbours: the placement field gets as long as a FEN allows (65-71 characters)
    let scattered = ctx.tier.pick(4000, 60_000) / ctx.shard_count() as u32;
    run_prop(ctx, "c07-scattered", scattered, 500, gen::synth_strategy(), &mut rep, |ent, rep| {
        let mut e = Entropy::new(ent);
        let mut p = Pos::empty();
        let parity = e.pick(2) as i32;
        let cells: Vec<usize> = (0..64).filter(|&s| (o::file_of(s) + o::rank_of(s)) % 2 == parity).collect();
        let wk = cells[e.pick(cells.len())];
        let bkc: Vec<usize> = cells.iter().copied().filter(|&s| (o::file_of(s) - o::file_of(wk)).abs().max((o::rank_of(s) - o::rank_of(wk)).abs()) > 1).collect();
        let bk = bkc[e.pick(bkc.len())];
        p.sq[wk] = o::mk(true, o::K);
        p.sq[bk] = o::mk(false, o::K);
        let mut count = [[0u32; 7]; 2];
        for &s in &cells {
            if p.sq[s] != 0 || e.pick(8) == 0 {
                continue;
            }
            let white = e.pick(2) == 0;
            let ci = if white { 0 } else { 1 };
            let men: u32 = count[ci].iter().sum();
            if men >= 15 {
                continue;
            }
            let back = !(1..=6).contains(&o::rank_of(s));
            let mut t = [o::P, o::P, o::P, o::N, o::B, o::R, o::Q][e.pick(7)];
            if t == o::P && (back || count[ci][o::P as usize] >= 8) {
                t = o::N;
            }
            // keep material legal: promoted pieces need missing pawns
            let base = if t == o::Q { 1 } else { 2 };
            let promoted: u32 = [o::N, o::B, o::R, o::Q].iter().map(|&x| count[ci][x as usize].saturating_sub(if x == o::Q { 1 } else { 2 })).sum();
            if t != o::P && count[ci][t as usize] >= base && promoted + 1 + count[ci][o::P as usize] > 8 {
                continue;
            }
            p.sq[s] = o::mk(white, t);
            count[ci][t as usize] += 1;
        }
        p.wtm = e.pick(2) == 0;
        p.hmc = e.pick(60) as u32;
        p.fmn = 1 + e.pick(200) as u32;
        if p.is_valid_start().is_err() {
            rep.class("scattered:rejected");
            return Ok(());
        }
        let fen = p.to_fen();
        let plen = fen.split(' ').next().unwrap_or("").len();
        rep.class(if plen > 64 { "fen:placement>64-chars" } else { "fen:scattered" });
        rep.nontrivial(o::hash_str(&fen));
        rep.sample_for("scattered", || json!({"fen": fen, "placement_chars": plen}));
        let Some((want, board)) = check_fields(&fen, rep)? else { return Ok(()) };
        check_behaviour(&fen, &want, &board, None, &[], rep)
    });
    let cases = ctx.tier.pick(160_000, 3_000_000) / ctx.shard_count() as u32;
    run_prop(ctx, "c07-fens", cases, 3000, strategy(), &mut rep, |c, rep| fen_case(c, &corp, rep));
    rep
}

pub fn replay(_ctx: &Ctx, case: &Value) -> Report {
    let mut rep = Report::new();
    let fen = case["fen"].as_str().unwrap_or("");
    let moves: Vec<String> = case["moves"].as_array().map(|a| a.iter().filter_map(|x| x.as_str().map(String::from)).collect()).unwrap_or_default();
    match check_fields(fen, &mut rep) {
        Err(v) => rep.violation(v),
        Ok(None) => rep.infra_errors.push("oracle rejects the replay FEN".into()),
        Ok(Some((want, board))) => {
            // follow the recorded line: translate moves into walk choices
            let mut p = want.clone();
            let mut walk = vec![];
            for u in &moves {
                let legal = p.legal_moves();
                let Some(i) = legal.iter().position(|m| &m.uci() == u) else { break };
                // smallest c with pick16(c, n) == i
                let n = legal.len();
                let c = ((i as u32 * 65536 + n as u32 - 1) / n as u32) as u16;
                walk.push(c);
                p = p.make(legal[i]);
            }
            if let Err(v) = check_behaviour(fen, &want, &board, None, &walk, &mut rep) {
                rep.violation(v);
            }
        }
    }
    rep
}

pub const LEVEL: &str = "exploration";
pub const RULE: &str = "valid FEN strings built by construction: the oracle's rendering of synthesised positions (all consistent castling-flag subsets, e.p. squares for both colours, half-move clocks 0..150, move numbers 1..6000) and of positions reached by generated play (so a 'played twin' exists), in 6-field and 4-field form, plus scattered many-piece positions whose placement field reaches 65-71 characters, a constructed table of all 16 flag subsets x both sides x e.p. x field count and the corpus. Checks: (1) 64 squares, side, 4 rights, e.p. file, clocks == the oracle's own reader of the same string (4-field => 0 and 1), nothing remembered, key == from-scratch key; (2) legal moves / check status / move effects == oracle, key and state == played twin, then up to 12 plies in lock step (state == oracle, key == twin at every step), and make+unmake of every legal move on the loaded board restores it. Non-trivial = FEN with a castling flag, an e.p. square, non-default counters, Black to move or 4 fields; distinct by string.";
pub const ASSUMPTIONS: &[&str] = &[
    "the oracle's FEN reader/writer (round-trip validated on the perft suite at the start of every run)",
    "only valid FEN strings are generated (kings present, flags consistent with king/rook placement, e.p. square consistent with a double push just made, half-move clock 0 when an e.p. square is given)",
];
