pub mod oracle;
pub mod frame;
pub mod eng;
pub mod gen;
pub mod corpus;
pub mod c01;
pub mod c02;
pub mod c03;
pub mod c04;
pub mod c05;
pub mod c07;
pub mod c08;
pub mod c09;
pub mod uciproc;
pub mod c10;
pub mod c11;
pub mod c12;
pub mod c13;
pub mod c14;
pub mod c15;
pub mod c16;
pub mod srch;
pub mod mate;
pub mod refsearch;
pub mod c17;
pub mod fuzzplay;
pub mod fuzzuci;
pub mod fuzzsearch;
pub mod c06;

use frame::{Ctx, Report};
use serde_json::Value;

pub struct Property {
    pub id: &'static str,
    pub run: fn(&Ctx) -> Report,
    pub replay: fn(&Ctx, &Value) -> Report,
    pub level: &'static str,
    pub rule: &'static str,
    pub assumptions: &'static [&'static str],
}

macro_rules! prop {
    ($id:expr, $m:ident) => {
        Property { id: $id, run: $m::run, replay: $m::replay, level: $m::LEVEL, rule: $m::RULE, assumptions: $m::ASSUMPTIONS }
    };
}

pub fn lookup(id: &str) -> Option<Property> {
    Some(match id {
        "C01" => prop!("C01", c01),
        "C02" => prop!("C02", c02),
        "C03" => prop!("C03", c03),
        "C04" => prop!("C04", c04),
        "C05" => prop!("C05", c05),
        "C06" => prop!("C06", c06),
        "C07" => prop!("C07", c07),
        "C08" => prop!("C08", c08),
        "C09" => prop!("C09", c09),
        "C10" => prop!("C10", c10),
        "C11" => prop!("C11", c11),
        "C12" => prop!("C12", c12),
        "C13" => prop!("C13", c13),
        "C14" => prop!("C14", c14),
        "C15" => prop!("C15", c15),
        "C16" => prop!("C16", c16),
        "C17" => prop!("C17", c17),
        _ => return None,
    })
}
