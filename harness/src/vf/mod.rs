pub mod oracle;
pub mod frame;
pub mod eng;
pub mod gen;
pub mod corpus;
pub mod c06;

use frame::{Ctx, Report};
use serde_json::Value;

pub struct Property {
    pub id: &'static str,
    pub run: fn(&Ctx) -> Report,
    pub replay: fn(&Ctx, &Value) -> Report,
    pub level: &'static str,
    pub rule: &'static str,
    pub assumptions: &'static [&'static str],
}

pub fn lookup(id: &str) -> Option<Property> {
    Some(match id {
        "C06" => Property { id: "C06", run: c06::run, replay: c06::replay, level: c06::LEVEL, rule: c06::RULE, assumptions: c06::ASSUMPTIONS },
        _ => return None,
    })
}
