//! C05 - different positions get different keys.
//!
//! (a) every position of oracle-driven walks and generated games goes into one run-wide
//!     table key -> position identity; two different identities under one key is a
//!     violation.  (b) every single-component perturbation of sampled positions must
//!     change the key.  (c) a complete single-component table from minimal bases.
//! Keys are taken from `Board::from_fen(oracle FEN)`; no search is involved, so this
//! check runs as threads of one process sharing the table.

use super::frame::*;
use super::oracle::{self as o, Game, Mv, Pos, PosId};
use super::{corpus, eng, gen};
use crate::board::Board;
use proptest::prelude::*;
use serde_json::{json, Value};
use std::collections::HashMap;
use std::sync::atomic::{AtomicUsize, Ordering};
use std::sync::Mutex;

pub fn pos_of_id(id: &PosId) -> Pos {
    let mut p = Pos::empty();
    for i in 0..32 {
        p.sq[2 * i] = id.0[i] & 15;
        p.sq[2 * i + 1] = id.0[i] >> 4;
    }
    p.wtm = id.0[32] & 1 != 0;
    for k in 0..4 {
        p.cr[k] = id.0[32] & (2 << k) != 0;
    }
    p.ep = if id.0[33] == 0 { None } else { Some(id.0[33] - 1) };
    p
}

const BUCKETS: usize = 1024;

pub struct Table {
    buckets: Vec<Mutex<HashMap<u64, PosId>>>,
}

impl Table {
    pub fn new() -> Table {
        Table { buckets: (0..BUCKETS).map(|_| Mutex::new(HashMap::new())).collect() }
    }
    /// Ok(true) = new entry, Ok(false) = same position again, Err(other) = collision
    pub fn insert(&self, key: u64, id: PosId) -> Result<bool, PosId> {
        let mut b = self.buckets[(key >> 54) as usize % BUCKETS].lock().unwrap();
        match b.get(&key) {
            Some(old) if *old == id => Ok(false),
            Some(old) => Err(*old),
            None => {
                b.insert(key, id);
                Ok(true)
            }
        }
    }
    pub fn len(&self) -> usize {
        self.buckets.iter().map(|b| b.lock().unwrap().len()).sum()
    }
}

pub fn key_of(p: &Pos) -> Option<u64> {
    let fen = p.to_fen();
    guard(|| eng::key_u64(Board::from_fen(&fen).zkey)).ok()
}

fn collision(a: &Pos, b: &Pos, key: u64, how: &str) -> Violation {
    let comp = differing_components(a, b);
    Violation::new(
        "injective",
        &format!("injective/{how}/{}", comp.join("+")),
        format!("two different positions share key {key:#018x}: {} and {} (they differ in {})", a.to_fen4(), b.to_fen4(), comp.join(",")),
        json!({"fen_a": a.to_fen(), "fen_b": b.to_fen()}),
    )
}

pub fn differing_components(a: &Pos, b: &Pos) -> Vec<&'static str> {
    let mut v = vec![];
    if a.sq != b.sq {
        v.push("placement");
    }
    if a.wtm != b.wtm {
        v.push("side");
    }
    if a.cr != b.cr {
        v.push("rights");
    }
    if a.ep != b.ep {
        v.push("ep");
    }
    v
}

fn add(table: &Table, p: &Pos, rep: &mut Report, how: &str) -> Result<(), Violation> {
    let Some(k) = key_of(p) else { return Ok(()) };
    rep.eval(1);
    let id = p.pos_id();
    match table.insert(k, id) {
        Ok(true) => {
            rep.nontrivial(id.fp64());
            Ok(())
        }
        Ok(false) => Ok(()),
        Err(other) => Err(collision(p, &pos_of_id(&other), k, how)),
    }
}

/// All valid single-component perturbations of `p` (each differs from `p` in exactly one
/// of: one square's content, side to move, one castling right, the e.p. file).
pub fn perturbations(p: &Pos, salt: u64) -> Vec<(&'static str, Pos)> {
    let mut out: Vec<(&'static str, Pos)> = vec![];
    let valid = |q: &Pos| q.is_valid_start().is_ok();
    // side to move (only when no e.p. file, so that exactly one component changes)
    if p.ep.is_none() {
        let mut q = p.clone();
        q.wtm = !q.wtm;
        if valid(&q) {
            out.push(("side", q));
        }
    }
    // castling rights
    for i in 0..4 {
        let mut q = p.clone();
        q.cr[i] = !q.cr[i];
        if valid(&q) {
            out.push(("right", q));
        }
    }
    // e.p. file: removed / added / moved
    for f in 0..8u8 {
        let mut q = p.clone();
        q.ep = Some(f);
        if p.ep != Some(f) && valid(&q) {
            out.push(("ep", q));
        }
    }
    if p.ep.is_some() {
        let mut q = p.clone();
        q.ep = None;
        out.push(("ep", q));
    }
    // one piece: removed, recoloured, retyped, shifted, added
    let mut h = salt;
    let mut next = |n: usize| -> usize {
        h = o::hash_bytes(&h.to_le_bytes(), 0x5EED);
        (h % n as u64) as usize
    };
    for s in 0..64usize {
        let c = p.sq[s];
        if c == 0 || o::pt(c) == o::K {
            continue;
        }
        let mut q = p.clone();
        q.sq[s] = 0;
        if valid(&q) {
            out.push(("piece-removed", q));
        }
        let mut q = p.clone();
        q.sq[s] = c ^ o::BLACK;
        if valid(&q) {
            out.push(("piece-recoloured", q));
        }
        let nt = [o::P, o::N, o::B, o::R, o::Q][next(5)];
        if nt != o::pt(c) {
            let mut q = p.clone();
            q.sq[s] = o::mk(o::is_white(c), nt);
            if valid(&q) {
                out.push(("piece-retyped", q));
            }
        }
    }
    for _ in 0..6 {
        let s = next(64);
        if p.sq[s] == 0 {
            let t = [o::P, o::N, o::B, o::R, o::Q][next(5)];
            let w = next(2) == 0;
            let mut q = p.clone();
            q.sq[s] = o::mk(w, t);
            if valid(&q) {
                out.push(("piece-added", q));
            }
        } else if o::pt(p.sq[s]) != o::K {
            // shift to a neighbouring empty square: two squares change, but it is the
            // natural "same piece elsewhere" confusion, kept as its own class
            let t = (s + 1) % 64;
            if p.sq[t] == 0 {
                let mut q = p.clone();
                q.sq[t] = q.sq[s];
                q.sq[s] = 0;
                if valid(&q) {
                    out.push(("piece-shifted", q));
                }
            }
        }
    }
    out
}

fn perturb_check(table: &Table, p: &Pos, rep: &mut Report) -> Result<(), Violation> {
    let Some(k0) = key_of(p) else { return Ok(()) };
    for (what, q) in perturbations(p, p.pos_id().fp64()) {
        let Some(k) = key_of(&q) else { continue };
        rep.eval(1);
        rep.class(&format!("perturb:{what}"));
        rep.nontrivial(o::hash_bytes(&q.pos_id().0, p.pos_id().fp64()));
        if k == k0 {
            return Err(Violation::new(
                "perturbation",
                &format!("perturbation/{what}"),
                format!("changing one component ({what}) does not change the key {k:#018x}: {} vs {}", p.to_fen4(), q.to_fen4()),
                json!({"fen_a": p.to_fen(), "fen_b": q.to_fen()}),
            ));
        }
        add(table, &q, rep, "perturbed")?;
    }
    Ok(())
}

fn walk(table: &Table, p: &Pos, depth: u32, rep: &mut Report, counter: &mut u64, every: u64) -> Result<(), Violation> {
    add(table, p, rep, "walk")?;
    *counter += 1;
    // deterministic sampling (independent of which thread walks which task)
    if p.pos_id().fp64() % every == 0 {
        perturb_check(table, p, rep)?;
    }
    if depth == 0 {
        return Ok(());
    }
    for m in p.legal_moves() {
        walk(table, &p.make(m), depth - 1, rep, counter, every)?;
    }
    Ok(())
}

/// (c) complete single-component table
fn complete_table(table: &Table, rep: &mut Report) -> Result<(), Violation> {
    let mut n = 0u64;
    // pieces: each of the 10 non-king kinds on every admissible square of a two-kings base
    for wtm in [true, false] {
        let base = Pos::from_fen(if wtm { "4k3/8/8/8/8/8/8/4K3 w - - 0 1" } else { "4k3/8/8/8/8/8/8/4K3 b - - 0 1" }).unwrap();
        let kb = key_of(&base).unwrap_or(0);
        add(table, &base, rep, "complete")?;
        for white in [true, false] {
            for t in [o::P, o::N, o::B, o::R, o::Q] {
                for s in 0..64usize {
                    if base.sq[s] != 0 {
                        continue;
                    }
                    let mut q = base.clone();
                    q.sq[s] = o::mk(white, t);
                    if q.is_valid_start().is_err() {
                        continue;
                    }
                    let Some(k) = key_of(&q) else { continue };
                    n += 1;
                    rep.eval(1);
                    if k == kb {
                        return Err(Violation::new("perturbation", "perturbation/complete/piece", format!("adding {} on {} does not change the key", o::piece_char(q.sq[s]), o::sq_name(s)), json!({"fen_a": base.to_fen(), "fen_b": q.to_fen()})));
                    }
                    add(table, &q, rep, "complete")?;
                }
            }
        }
        // kings on every admissible square
        for white in [true, false] {
            for s in 0..64usize {
                let mut q = base.clone();
                let old = q.king_sq(white).unwrap();
                if s == old || q.sq[s] != 0 {
                    continue;
                }
                q.sq[old] = 0;
                q.sq[s] = o::mk(white, o::K);
                if q.is_valid_start().is_err() || q.attacked(q.king_sq(true).unwrap(), false) && q.attacked(q.king_sq(false).unwrap(), true) {
                    continue;
                }
                n += 1;
                rep.eval(1);
                add(table, &q, rep, "complete")?;
            }
        }
    }
    // all 16 subsets of rights, both sides to move
    for stm in ["w", "b"] {
        for mask in 0..16u32 {
            let mut q = Pos::from_fen(&format!("r3k2r/8/8/8/8/8/8/R3K2R {stm} - - 0 1")).unwrap();
            for i in 0..4 {
                q.cr[i] = mask & (1 << i) != 0;
            }
            n += 1;
            rep.eval(1);
            add(table, &q, rep, "complete")?;
        }
    }
    // e.p. files
    for (fen, _) in [("4k3/8/8/pppppppp/8/8/8/4K3 w - - 0 1", 0), ("4k3/8/8/8/PPPPPPPP/8/8/4K3 b - - 0 1", 1)] {
        let base = Pos::from_fen(fen).unwrap();
        add(table, &base, rep, "complete")?;
        for f in 0..8u8 {
            let mut q = base.clone();
            q.ep = Some(f);
            n += 1;
            rep.eval(1);
            add(table, &q, rep, "complete")?;
        }
    }
    rep.class_n("complete-table-entries", n);
    Ok(())
}

enum Task {
    Walk(String, u32),
    Games(u32, usize),
    Complete,
}

pub fn run(ctx: &Ctx) -> Report {
    let corp = corpus::load(&ctx.verif);
    let table = Table::new();
    let mut tasks: Vec<Task> = vec![Task::Complete];
    let start = Pos::startpos();
    let d0 = 4; // both tiers: every position up to ply 5 from the start (4.9 M nodes)
    for m in start.legal_moves() {
        tasks.push(Task::Walk(start.make(m).to_fen(), d0));
    }
    let budget = ctx.tier.pick(30_000.0f64, 120_000.0);
    for (i, p) in corp.positions.iter().enumerate() {
        let n2 = super::oracle::perft(p, 2).max(2) as f64;
        let mut d = 1u32;
        while d < 6 && n2.powf((d + 1) as f64 / 2.0) <= budget {
            d += 1;
        }
        tasks.push(Task::Walk(corp.fens[i].clone(), d));
    }
    let game_batches = 32;
    let games_total = ctx.tier.pick(40_000u32, 240_000);
    for b in 0..game_batches {
        tasks.push(Task::Games(games_total / game_batches as u32, b));
    }
    let next = AtomicUsize::new(0);
    let merged = Mutex::new(Report::new());
    let every = ctx.tier.pick(40u64, 25);
    std::thread::scope(|sc| {
        for _t in 0..16 {
            sc.spawn(|| {
                let mut rep = Report::new();
                let mut counter = 0u64;
                loop {
                    let i = next.fetch_add(1, Ordering::SeqCst);
                    if i >= tasks.len() {
                        break;
                    }
                    match &tasks[i] {
                        Task::Complete => {
                            if let Err(v) = complete_table(&table, &mut rep) {
                                rep.violation(v);
                            }
                        }
                        Task::Walk(fen, d) => {
                            let p = Pos::from_fen(fen).unwrap();
                            rep.class("walk:tasks");
                            if let Err(v) = walk(&table, &p, *d, &mut rep, &mut counter, every) {
                                rep.violation(v);
                            }
                        }
                        Task::Games(n, b) => {
                            let max_len = ctx.tier.pick(100, 160);
                            run_prop(ctx, &format!("c05-games-{b}"), *n, 2000, gen::game_strategy(max_len), &mut rep, |case, rep| {
                                let Some((startp, label)) = gen::start_pos(&case.start, &corp, gen::MIX_DEFAULT) else {
                                    return Ok(());
                                };
                                let mut game = Game::new(startp);
                                rep.sample(|| json!({"start": label, "start_fen": game.start.to_fen(), "plies": case.choices.len()}));
                                add(&table, &game.cur, rep, "game")?;
                                for (i, &c) in case.choices.iter().enumerate() {
                                    let legal = game.cur.legal_moves();
                                    if legal.is_empty() {
                                        break;
                                    }
                                    let m = gen::choose_move(&game, &legal, case.weighted, c);
                                    game.play(m);
                                    add(&table, &game.cur, rep, "game")?;
                                    if i % 16 == 5 {
                                        perturb_check(&table, &game.cur, rep)?;
                                    }
                                }
                                Ok(())
                            });
                        }
                    }
                }
                merged.lock().unwrap().merge(rep);
            });
        }
    });
    let mut rep = merged.into_inner().unwrap();
    rep.extra.insert("table_entries".into(), json!(table.len() as u64));
    rep
}

pub fn replay(_ctx: &Ctx, case: &Value) -> Report {
    let mut rep = Report::new();
    let (Ok(a), Ok(b)) = (Pos::from_fen(case["fen_a"].as_str().unwrap_or("")), Pos::from_fen(case["fen_b"].as_str().unwrap_or(""))) else {
        rep.infra_errors.push("bad replay".into());
        return rep;
    };
    rep.eval(2);
    if a.pos_id() == b.pos_id() {
        rep.infra_errors.push("replay positions are identical".into());
        return rep;
    }
    if let (Some(ka), Some(kb)) = (key_of(&a), key_of(&b)) {
        if ka == kb {
            rep.violation(collision(&a, &b, ka, "replay"));
        }
    }
    rep
}

pub const LEVEL: &str = "exploration";
pub const RULE: &str = "positions = every node of oracle-driven bounded walks (start position to ply 5, corpus FENs to the deepest depth whose estimated walk fits 30 000 / 120 000 nodes) and of proptest-generated games, all entered into one run-wide table key -> position identity (collision between different identities = violation); every single-component perturbation (side to move; each castling right; e.p. file added/removed/moved; one piece removed/recoloured/retyped/added/shifted) of every ~40th (quick) / ~25th (thorough) explored position, kept inside the valid-FEN domain, must change the key and is entered too; plus a complete single-component table (10 piece kinds x admissible squares, kings x squares, 16 rights subsets, 8 e.p. files, both sides to move). Non-trivial = each new distinct position identity entered and each perturbation pair; counted distinct by identity.";
pub const ASSUMPTIONS: &[&str] = &[
    "keys are obtained as Board::from_fen(oracle FEN).zkey (the from-scratch key; C04 ties it to the incremental one)",
    "an honest 64-bit collision among N keys has probability about N^2/2^65 (5e-5 for 4e7 keys); the Zobrist seed is a constant, so the outcome is deterministic per (code, VERIF_SEED)",
];
