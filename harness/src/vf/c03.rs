//! C03 - game-state bookkeeping follows the rules along any game.
//!
//! Differential state machine: after every move of long generated games the engine's
//! position is compared component by component with the oracle's, and the set of
//! remembered earlier positions with the positions actually visited.

use super::c01::move_kind;
use super::frame::*;
use super::oracle::{self as o, Game, Mv, Pos};
use super::{corpus, eng, gen};
use crate::board::zkey::ZKey;
use crate::board::Board;
use serde_json::{json, Value};
use std::collections::BTreeSet;

pub fn pos_diff(got: &Pos, want: &Pos) -> Vec<&'static str> {
    let mut v = vec![];
    if got.sq != want.sq {
        v.push("placement");
    }
    if got.wtm != want.wtm {
        v.push("turn");
    }
    if got.cr != want.cr {
        v.push("rights");
    }
    if got.ep != want.ep {
        v.push("ep");
    }
    if got.hmc != want.hmc {
        v.push("halfmove");
    }
    if got.fmn != want.fmn {
        v.push("fullmove");
    }
    v
}

fn case(start_fen: &str, path: &[String]) -> Value {
    json!({"start_fen": start_fen, "moves": path})
}

/// Compare engine state with the oracle game state after `path`.
pub fn check_state(board: &Board, game: &Game, keys: &[u64], start_fen: &str, path: &[String], last: Option<&Mv>, rep: &mut Report) -> Result<(), Violation> {
    rep.eval(1);
    let snap = eng::snapshot(board);
    let d = pos_diff(&snap, &game.cur);
    let kind = last.map_or("start", move_kind);
    if !d.is_empty() {
        return Err(Violation::new(
            "state",
            &format!("state/{}/{}", d.join("+"), kind),
            format!("after [{}] from {start_fen}: engine has {} , rules give {} (differs in {})", path.join(" "), snap.to_fen(), game.cur.to_fen(), d.join(",")),
            case(start_fen, path),
        ));
    }
    // remembered positions == the earlier positions of the game (as a set of keys)
    let remembered: BTreeSet<u64> = eng::remembered(board).into_iter().collect();
    let earlier: BTreeSet<u64> = keys.iter().copied().collect();
    if remembered != earlier {
        let missing = earlier.difference(&remembered).count();
        let extra = remembered.difference(&earlier).count();
        return Err(Violation::new(
            "remembered",
            &format!("remembered/{}/{}", if missing > 0 { "missing" } else { "extra" }, kind),
            format!("after [{}] from {start_fen}: {missing} earlier positions are not remembered, {extra} remembered keys are not earlier positions", path.join(" ")),
            case(start_fen, path),
        ));
    }
    for &k in keys {
        let _ = k;
    }
    let reached = board.position_reached(board.zkey);
    let repeats = game.cur_repeats_earlier();
    if reached != repeats {
        return Err(Violation::new(
            "remembered",
            &format!("remembered/current/{}", if repeats { "repeat-not-seen" } else { "false-repeat" }),
            format!("after [{}] from {start_fen}: position_reached(current) = {reached}, but the rules say repeats-earlier = {repeats}", path.join(" ")),
            case(start_fen, path),
        ));
    }
    Ok(())
}

pub fn game_case(case_: &gen::GameCase, corp: &corpus::Corpus, rep: &mut Report) -> Result<(), Violation> {
    let Some((start, label)) = gen::start_pos(&case_.start, corp, gen::StartMix { startpos: 4, corpus: 4, synth: 5, pattern: 3 }) else {
        rep.class("start:rejected");
        return Ok(());
    };
    let start_fen = start.to_fen();
    let Ok(mut board) = guard(|| Board::from_fen(&start_fen)) else {
        return Ok(());
    };
    let mut game = Game::new(start);
    let mut path: Vec<String> = vec![];
    let mut keys: Vec<u64> = vec![];
    let mut feats: BTreeSet<&'static str> = BTreeSet::new();
    // a third of the games apply the moves the way the engine's own position command does:
    // find_move (a legality probe of every pseudo-legal move) on the live board, then make_move
    let live = case_.start[3] % 3 == 0;
    rep.class(if live { "lookup:live-find_move(as the position command does)" } else { "lookup:on-a-clone" });
    check_state(&board, &game, &keys, &start_fen, &path, None, rep)?;
    for &c in &case_.choices {
        let legal = game.cur.legal_moves();
        if legal.is_empty() {
            break;
        }
        let m = gen::choose_move(&game, &legal, case_.weighted, c);
        let u = m.uci();
        let found = if live { guard(|| board.find_move(&u).ok()).ok().flatten() } else { eng::find_ply(&board, &u) };
        let Some(ply) = found else {
            rep.class("c01-mismatch-skipped");
            break;
        };
        // features of this step
        let piece = game.cur.sq[m.from as usize];
        let w = game.cur.wtm;
        match move_kind(&m) {
            "castle" => {
                feats.insert("castle");
            }
            "ep" => {
                feats.insert("ep");
            }
            "promo" | "promo-capture" => {
                feats.insert("promotion");
            }
            _ => {}
        }
        if m.is_capture() && matches!(m.to, 0 | 7 | 56 | 63) && o::pt(game.cur.sq[m.to as usize]) == o::R {
            let idx = match m.to {
                7 => 0,
                0 => 1,
                63 => 2,
                _ => 3,
            };
            if game.cur.cr[idx] {
                feats.insert(if m.is_promo() { "home-rook-captured-by-promotion" } else { "home-rook-captured" });
            }
        }
        let own = if w { game.cur.cr[0] || game.cur.cr[1] } else { game.cur.cr[2] || game.cur.cr[3] };
        if own && !m.is_castle() && (o::pt(piece) == o::K || (o::pt(piece) == o::R && matches!(m.from, 0 | 7 | 56 | 63))) {
            feats.insert("rights-lost-by-move");
        }
        keys.push(eng::key_u64(board.zkey));
        if let Err(pm) = guard(|| board.make_move(ply)) {
            path.push(u.clone());
            return Err(Violation::new("state", &format!("state/panic/{}", panic_site(&pm)), format!("make_move({u}) panicked: {pm}"), case(&start_fen, &path)));
        }
        game.play(m);
        path.push(u);
        if game.cur.hmc == 50 {
            feats.insert("clock-50");
        }
        if game.cur.hmc == 100 {
            feats.insert("clock-100");
        }
        if game.cur_repeats_earlier() {
            feats.insert("repetition");
        }
        check_state(&board, &game, &keys, &start_fen, &path, Some(&m), rep).map_err(|mut v| {
            if live {
                v.sig = format!("{}/live-lookup", v.sig);
                v.replay["live"] = json!(true);
            }
            v
        })?;
        // children of the new position are not remembered unless they occurred earlier
        if c % 8 == 0 {
            for cm in game.cur.legal_moves().iter().take(6) {
                let child = game.cur.make(*cm);
                let cid = child.pos_id();
                let occurred = cid == game.cur.pos_id() || game.earlier.contains(&cid);
                if let Some(cply) = eng::find_ply(&board, &cm.uci()) {
                    let mut cb = board.clone();
                    cb.make_move(cply);
                    let k = cb.zkey;
                    if board.position_reached(k) && !occurred {
                        let mut p2 = path.clone();
                        p2.push(cm.uci());
                        return Err(Violation::new("remembered", "remembered/child/false-repeat", format!("a position never visited ({}) is reported as reached", child.to_fen()), case(&start_fen, &p2)));
                    }
                }
            }
        }
    }
    for f in &feats {
        rep.class(&format!("game-with:{f}"));
    }
    rep.class(&format!("start:{}", label.split(':').next().unwrap_or("")));
    if game.start.hmc >= 50 || game.start.fmn >= 1000 {
        feats.insert("large-clocks-at-start");
        rep.class("game-with:large-clocks-at-start");
    }
    if !feats.is_empty() {
        rep.nontrivial(o::hash_str(&format!("{start_fen}|{}", path.join(" "))));
    }
    rep.sample(|| json!({"start": label, "start_fen": start_fen, "plies": path.len(), "features": feats.iter().collect::<Vec<_>>(), "moves": path.join(" ")}));
    Ok(())
}

pub const SHARDS: usize = 16;

pub fn run(ctx: &Ctx) -> Report {
    if ctx.shard.is_none() {
        let mut rep = run_sharded(ctx, SHARDS, SHARDS);
        if ctx.tier == Tier::Thorough {
            super::fuzzplay::campaign(ctx, "C03", &mut rep);
        }
        return rep;
    }
    let mut rep = Report::new();
    let corp = corpus::load(&ctx.verif);
    let games = ctx.tier.pick(40_000, 600_000) / ctx.shard_count() as u32;
    let max_len = ctx.tier.pick(300, 400);
    run_prop(ctx, "c03-games", games, 4000, gen::game_strategy(max_len), &mut rep, |case, rep| game_case(case, &corp, rep));
    rep
}

pub fn replay(_ctx: &Ctx, case_: &Value) -> Report {
    let mut rep = Report::new();
    let start_fen = case_["start_fen"].as_str().unwrap_or("").to_string();
    let moves: Vec<String> = case_["moves"].as_array().map(|a| a.iter().filter_map(|x| x.as_str().map(String::from)).collect()).unwrap_or_default();
    let Ok(start) = Pos::from_fen(&start_fen) else {
        rep.infra_errors.push("bad start fen".into());
        return rep;
    };
    let Ok(mut board) = guard(|| Board::from_fen(&start_fen)) else {
        rep.infra_errors.push("engine cannot load start fen".into());
        return rep;
    };
    let mut game = Game::new(start);
    let mut keys = vec![];
    let mut path = vec![];
    if let Err(v) = check_state(&board, &game, &keys, &start_fen, &path, None, &mut rep) {
        rep.violation(v);
        return rep;
    }
    for u in &moves {
        let Some(m) = game.cur.find_legal(u) else {
            rep.infra_errors.push(format!("replay move {u} not legal per oracle"));
            return rep;
        };
        let live = case_["live"].as_bool() == Some(true);
        let found = if live { guard(|| board.find_move(u).ok()).ok().flatten() } else { eng::find_ply(&board, u) };
        let Some(ply) = found else {
            rep.infra_errors.push(format!("engine does not offer {u} (C01's subject)"));
            return rep;
        };
        keys.push(eng::key_u64(board.zkey));
        if let Err(pm) = guard(|| board.make_move(ply)) {
            rep.violation(Violation::new("state", &format!("state/panic/{}", panic_site(&pm)), format!("make_move({u}) panicked: {pm}"), case_.clone()));
            return rep;
        }
        game.play(m);
        path.push(u.clone());
        if let Err(v) = check_state(&board, &game, &keys, &start_fen, &path, Some(&m), &mut rep) {
            rep.violation(v);
            return rep;
        }
        // child probe as in generation
        for cm in game.cur.legal_moves().iter().take(6) {
            let child = game.cur.make(*cm);
            let cid = child.pos_id();
            let occurred = cid == game.cur.pos_id() || game.earlier.contains(&cid);
            if let Some(cply) = eng::find_ply(&board, &cm.uci()) {
                let mut cb = board.clone();
                cb.make_move(cply);
                if board.position_reached(cb.zkey) && !occurred {
                    rep.violation(Violation::new("remembered", "remembered/child/false-repeat", format!("a position never visited ({}) is reported as reached", child.to_fen()), case_.clone()));
                    return rep;
                }
            }
        }
    }
    rep
}

pub const LEVEL: &str = "exploration";
pub const RULE: &str = "proptest-generated legal games up to 300 (quick) / 400 (thorough) plies, uniform and special-move/repetition-weighted, from startpos / corpus / synthesised starts (half-move clocks 0..150, move numbers 1..6000) / pattern starts. A third of the games apply each move as the engine's own position command does (find_move on the live board, then make_move); the others look moves up on a clone. After every move: 64 squares, side to move, 4 castling rights, e.p. file, half-move clock, full-move number == independent oracle state machine; set of remembered keys == keys of the earlier positions; position_reached(current) iff the oracle says the position occurred earlier; unvisited children not remembered. Non-trivial = game containing castling, e.p. capture, promotion, capture of a home rook with its right still present (incl. by a promoting pawn), king/home-rook move losing rights, clock passing 50 or 100, a repetition, or large clocks at the start; distinct by (start, move sequence).";
pub const ASSUMPTIONS: &[&str] = &[
    "the independent rules oracle (vf/oracle.rs) as the reference state machine",
    "e.p. file and remembered keys are read through the cfg(rce_verif) accessors verif_en_passant_file / verif_remembered_keys",
    "two thirds of the games look moves up on a clone, so a C02 defect cannot surface there; one third uses the live board as the UCI layer does (signature suffix /live-lookup)",
];
