//! C02 - unmaking a move restores the position exactly; queries do not change it.
//!
//! Stack-disciplined op sequences (Make / Unmake / LegalMoves / InCheck / FindMove) over
//! generated games, against the round-trip oracle "the whole Board equals the snapshot
//! taken before" (derived PartialEq covers every field), plus: every legal move of every
//! visited position is made and unmade, and the whole game is unwound at the end.
//! This is the one check that calls `get_legal_moves` on the board under test.

use super::c01::move_kind;
use super::frame::*;
use super::oracle::{self as o, Game, Mv, Pos};
use super::{corpus, eng, gen};
use crate::board::zkey::ZKey;
use crate::board::{Board, Ply};
use proptest::prelude::*;
use serde_json::{json, Value};

#[derive(Clone, Debug)]
pub struct OpsCase {
    pub start: Vec<u16>,
    /// (op selector, choice)
    pub ops: Vec<(u8, u16)>,
}

pub fn ops_strategy(max_len: usize) -> impl Strategy<Value = OpsCase> {
    (gen::synth_strategy(), proptest::collection::vec((0u8..12, any::<u16>()), 0..=max_len)).prop_map(|(start, ops)| OpsCase { start, ops })
}

#[derive(Clone, Copy, Debug, PartialEq)]
pub enum Op {
    Make,
    Unmake,
    LegalMoves,
    InCheck,
    FindMove,
}
fn op_of(sel: u8) -> Op {
    match sel {
        0..=5 => Op::Make,
        6..=8 => Op::Unmake,
        9 => Op::LegalMoves,
        10 => Op::InCheck,
        _ => Op::FindMove,
    }
}
fn op_name(op: Op) -> &'static str {
    match op {
        Op::Make => "make",
        Op::Unmake => "unmake",
        Op::LegalMoves => "legal_moves",
        Op::InCheck => "in_check",
        Op::FindMove => "find_move",
    }
}

/// Which observable components of two boards differ (for signatures and messages).
pub fn diff_components(a: &Board, b: &Board, probe_keys: &[ZKey]) -> Vec<&'static str> {
    let mut v = vec![];
    if eng::placement(a) != eng::placement(b) {
        v.push("placement");
    }
    if a.current_turn != b.current_turn {
        v.push("turn");
    }
    if eng::rights(a) != eng::rights(b) {
        v.push("rights");
    }
    if eng::ep_file(a) != eng::ep_file(b) {
        v.push("ep");
    }
    if a.get_halfmove_clock() != b.get_halfmove_clock() {
        v.push("halfmove");
    }
    if a.fullmove_counter != b.fullmove_counter {
        v.push("fullmove");
    }
    if a.zkey != b.zkey {
        v.push("key");
    }
    if probe_keys.iter().any(|k| a.position_reached(*k) != b.position_reached(*k)) {
        v.push("remembered");
    }
    if v.is_empty() {
        v.push("hidden-state");
    }
    v
}

struct Frame {
    snapshot: Board,
    legal: Vec<String>,
    mv: Mv,
    repeat: bool,
}

pub fn ops_json(start_fen: &str, script: &[String]) -> Value {
    json!({"start_fen": start_fen, "ops": script})
}

/// Interpreter shared by generation and replay: `script` entries are "make <uci>",
/// "unmake", "legal_moves", "in_check", "find_move <text>".
pub fn run_script(start_fen: &str, script: &[String], rep: &mut Report) -> Result<(), Violation> {
    let start = Pos::from_fen(start_fen).map_err(|e| Violation::new("infra", "infra/bad-fen", e, json!(null)))?;
    let Ok(mut board) = guard(|| Board::from_fen(start_fen)) else {
        return Ok(());
    };
    let mut game = Game::new(start);
    let mut stack: Vec<Frame> = vec![];
    let mut done: Vec<String> = vec![];
    let fail = |clause: &str, sig: String, detail: String, done: &Vec<String>| -> Violation { Violation::new(clause, &sig, detail, ops_json(start_fen, done)) };

    // helper closures cannot borrow board mutably twice; written inline below
    let mut all: Vec<String> = script.to_vec();
    // whole-game unwinding at the end
    let makes = script.iter().filter(|s| s.starts_with("make ")).count();
    let unmakes = script.iter().filter(|s| *s == "unmake").count();
    for _ in 0..makes.saturating_sub(unmakes) {
        all.push("unmake".into());
    }
    for entry in &all {
        done.push(entry.clone());
        let keys: Vec<ZKey> = stack.iter().map(|f| f.snapshot.zkey).chain(std::iter::once(board.zkey)).collect();
        let repeat_here = game.cur_repeats_earlier();
        let (op, arg) = match entry.split_once(' ') {
            Some((a, b)) => (a, b),
            None => (entry.as_str(), ""),
        };
        match op {
            "make" => {
                let snapshot = board.clone();
                // the query itself must not change the board
                let moves = guard(|| board.get_legal_moves()).map_err(|pm| fail("query", format!("query/panic/{}", panic_site(&pm)), format!("get_legal_moves panicked at {}: {pm}", game.cur.to_fen()), &done))?;
                rep.eval(1);
                if board != snapshot {
                    let d = diff_components(&board, &snapshot, &keys);
                    let sig = format!("query/{}/{}", d.join("+"), if repeat_here { "repeat" } else { "plain" });
                    let detail = format!("get_legal_moves() changed the board at {} (differs in: {}; position repeats an earlier one: {repeat_here})", game.cur.to_fen(), d.join(","));
                    board = snapshot.clone();
                    return Err(fail("query", sig, detail, &done));
                }
                // every legal move: make + unmake returns to the snapshot
                for ply in &moves {
                    let mk = eng::ply_mv(ply);
                    let r = guard(|| {
                        board.make_move(*ply);
                        board.unmake_move();
                    });
                    rep.eval(1);
                    if let Err(pm) = r {
                        return Err(fail("roundtrip", format!("roundtrip/panic/{}", panic_site(&pm)), format!("make/unmake of {} panicked at {}: {pm}", mk.uci(), game.cur.to_fen()), &done));
                    }
                    let special = !matches!(move_kind(&mk), "quiet" | "capture" | "double-push") || (mk.is_capture() && matches!(mk.to, 0 | 7 | 56 | 63));
                    if special || repeat_here || stack.len() >= 2 {
                        rep.nontrivial(o::hash_bytes(&game.cur.pos_id().0, (mk.from as u64) << 16 | (mk.to as u64) << 8 | mk.promo as u64));
                    }
                    if special {
                        rep.class(&format!("pair:{}", move_kind(&mk)));
                    }
                    if board != snapshot {
                        let d = diff_components(&board, &snapshot, &keys);
                        let sig = format!("roundtrip/{}/{}", d.join("+"), if repeat_here { "repeat" } else { move_kind(&mk) });
                        let detail = format!("make+unmake of {} at {} does not restore the board (differs in: {}; position repeats an earlier one: {repeat_here})", mk.uci(), game.cur.to_fen(), d.join(","));
                        let mut d2 = done.clone();
                        d2.pop();
                        d2.push(format!("make {}", mk.uci()));
                        d2.push("unmake".into());
                        board = snapshot.clone();
                        return Err(Violation::new("roundtrip", &sig, detail, ops_json(start_fen, &d2)));
                    }
                }
                if repeat_here {
                    rep.class("at-repeated-position");
                }
                let Some(ply) = moves.iter().find(|p| eng::ply_uci(p) == arg).copied() else {
                    // not offered by the engine (C01's subject) or game over: skip
                    rep.class("make:skipped");
                    done.pop();
                    continue;
                };
                let Some(m) = game.cur.find_legal(arg) else {
                    rep.class("make:skipped");
                    done.pop();
                    continue;
                };
                let mut legal: Vec<String> = moves.iter().map(eng::ply_uci).collect();
                legal.sort();
                guard(|| board.make_move(ply)).map_err(|pm| fail("roundtrip", format!("roundtrip/panic/{}", panic_site(&pm)), format!("make_move({arg}) panicked: {pm}"), &done))?;
                stack.push(Frame { snapshot, legal, mv: m, repeat: repeat_here });
                game.play(m);
                if stack.len() >= 2 {
                    rep.class("nested>=2");
                }
            }
            "unmake" => {
                let Some(fr) = stack.pop() else {
                    done.pop();
                    continue;
                };
                let r = guard(|| board.unmake_move());
                rep.eval(1);
                if let Err(pm) = r {
                    return Err(fail("roundtrip", format!("roundtrip/panic/{}", panic_site(&pm)), format!("unmake_move panicked after {}: {pm}", fr.mv.uci()), &done));
                }
                game.undo();
                let keys2: Vec<ZKey> = stack.iter().map(|f| f.snapshot.zkey).chain(std::iter::once(fr.snapshot.zkey)).collect();
                if board != fr.snapshot {
                    let d = diff_components(&board, &fr.snapshot, &keys2);
                    let sig = format!("roundtrip/{}/{}", d.join("+"), if fr.repeat { "repeat" } else { move_kind(&fr.mv) });
                    let detail = format!("unmake of {} does not restore {} (differs in: {}; position repeats an earlier one: {})", fr.mv.uci(), game.cur.to_fen(), d.join(","), fr.repeat);
                    return Err(fail("roundtrip", sig, detail, &done));
                }
                for f in &stack {
                    if !board.position_reached(f.snapshot.zkey) {
                        return Err(fail("roundtrip", "roundtrip/remembered/earlier-forgotten".into(), format!("after unmake at {} an earlier position of the line is no longer remembered", game.cur.to_fen()), &done));
                    }
                }
                let mut legal: Vec<String> = eng::legal_on_clone(&board).iter().map(eng::ply_uci).collect();
                legal.sort();
                if legal != fr.legal {
                    return Err(fail("roundtrip", format!("roundtrip/legal-moves/{}", move_kind(&fr.mv)), format!("legal moves after unmake of {} differ from before at {}", fr.mv.uci(), game.cur.to_fen()), &done));
                }
            }
            "legal_moves" | "in_check" | "find_move" => {
                let snapshot = board.clone();
                let r = guard(|| match op {
                    "legal_moves" => {
                        let _ = board.get_legal_moves();
                    }
                    "in_check" => {
                        let _ = board.is_in_check(eng::color(true));
                        let _ = board.is_in_check(eng::color(false));
                    }
                    _ => {
                        let _ = board.find_move(arg);
                    }
                });
                rep.eval(1);
                if let Err(pm) = r {
                    return Err(fail("query", format!("query/panic/{}", panic_site(&pm)), format!("{op} panicked at {}: {pm}", game.cur.to_fen()), &done));
                }
                if repeat_here {
                    rep.nontrivial(o::hash_bytes(&game.cur.pos_id().0, 0x9E5 + op.len() as u64));
                    rep.class("query-at-repeated-position");
                }
                if board != snapshot {
                    let d = diff_components(&board, &snapshot, &keys);
                    let sig = format!("query/{}/{}", d.join("+"), if repeat_here { "repeat" } else { "plain" });
                    let detail = format!("{op}() changed the board at {} (differs in: {}; position repeats an earlier one: {repeat_here})", game.cur.to_fen(), d.join(","));
                    return Err(fail("query", sig, detail, &done));
                }
            }
            _ => {}
        }
    }
    Ok(())
}

/// Turn generated choices into a concrete script by playing on the oracle.
pub fn script_of(case: &OpsCase, corp: &corpus::Corpus) -> Option<(String, Vec<String>, String)> {
    let (start, label) = gen::start_pos(&case.start, corp, gen::MIX_DEFAULT)?;
    let start_fen = start.to_fen();
    let mut game = Game::new(start);
    let mut depth = 0usize;
    let mut script = vec![];
    for &(sel, c) in &case.ops {
        let mut op = op_of(sel);
        if op == Op::Unmake && depth == 0 {
            op = Op::LegalMoves;
        }
        match op {
            Op::Make => {
                let legal = game.cur.legal_moves();
                if legal.is_empty() {
                    script.push("legal_moves".to_string());
                    continue;
                }
                let m = gen::choose_move(&game, &legal, true, c);
                script.push(format!("make {}", m.uci()));
                game.play(m);
                depth += 1;
            }
            Op::Unmake => {
                script.push("unmake".into());
                game.undo();
                depth -= 1;
            }
            Op::LegalMoves => script.push("legal_moves".into()),
            Op::InCheck => script.push("in_check".into()),
            Op::FindMove => {
                let legal = game.cur.legal_moves();
                let txt = if legal.is_empty() || c % 5 == 0 { "e2e9".to_string() } else { legal[pick16(c, legal.len())].uci() };
                script.push(format!("find_move {txt}"));
            }
        }
    }
    Some((start_fen, script, label))
}

pub const SHARDS: usize = 16;

/// A legal game of `plies` plies from the start position as a make-script: knight shuffles with a
/// pawn move pair at the start of every 88-ply block.
pub fn long_game_script(plies: usize) -> Vec<String> {
    let start = Pos::startpos();
    let mut game = Game::new(start.clone());
    let cyc = ["g1f3", "g8f6", "f3g1", "f6g8", "b1c3", "b8c6", "c3b1", "c6b8"];
    let pawns = ["a2a3", "a7a6", "b2b3", "b7b6", "c2c3", "c7c6", "d2d3", "d7d6", "e2e3", "e7e6", "f2f3", "f7f6", "g2g3", "g7g6", "h2h3", "h7h6", "a3a4", "a6a5", "b3b4", "b6b5", "c3c4", "c6c5", "d3d4", "d6d5", "e3e4", "e6e5", "h3h4", "h6h5"];
    let mut script: Vec<String> = vec![];
    let (mut i, mut pi) = (0usize, 0usize);
    while script.len() < plies {
        // a pawn move pair at the start of every 88-ply block (both sides, keeps the parity of the cycle)
        let u = if i % 88 < 2 && pi < pawns.len() {
            let u = pawns[pi];
            pi += 1;
            u
        } else {
            cyc[(i - 2 * (i / 88 + 1).min(pi / 2 + 1) + 8 * 100) % 8]
        };
        match game.cur.find_legal(u) {
            Some(m) => {
                game.play(m);
                script.push(format!("make {u}"));
            }
            None => {
                // out of step with the cycle: any legal knight or king move keeps the game going
                let l = game.cur.legal_moves();
                let m = l[(i * 7) % l.len()];
                script.push(format!("make {}", m.uci()));
                game.play(m);
            }
        }
        i += 1;
    }
    script
}

pub fn run(ctx: &Ctx) -> Report {
    if ctx.shard.is_none() {
        let mut rep = run_sharded(ctx, SHARDS, SHARDS);
        if ctx.tier == Tier::Thorough {
            super::fuzzplay::campaign(ctx, "C02", &mut rep);
        }
        return rep;
    }
    let mut rep = Report::new();
    let corp = corpus::load(&ctx.verif);
    // fixed regression shapes first (cheap): shuffles that repeat positions
    if ctx.shard_index() == 0 {
        let start = Pos::startpos().to_fen();
        let shuffle: Vec<String> = ["make g1f3", "make g8f6", "make f3g1", "make f6g8", "legal_moves", "make g1f3", "make g8f6", "make f3g1", "make f6g8", "in_check", "unmake", "unmake"]
            .iter()
            .map(|s| s.to_string())
            .collect();
        if let Err(v) = run_script(&start, &shuffle, &mut rep) {
            if let Some(k) = ctx.is_known(&v.sig) {
                rep.known(&v.sig, &k.text);
            } else {
                rep.violation(v);
            }
        }
    }
    // very long games (1100 / 2300 plies of knight shuffles with a pawn move every 90 plies so
    // that the fifty-move clock never matters), every ply made with its queries, then the whole
    // game taken back: nesting depth far beyond any bounded undo record
    if ctx.shard_index() == 1 || ctx.shard_index() == 2 {
        let plies = if ctx.shard_index() == 1 { 1100 } else { ctx.tier.pick(1300, 2300) };
        let start = Pos::startpos();
        let mut script = long_game_script(plies);
        script.push("legal_moves".into());
        script.push("in_check".into());
        rep.class("shape:very-long-game(>1000 plies)");
        if let Err(v) = run_script(&start.to_fen(), &script, &mut rep) {
            if let Some(k) = ctx.is_known(&v.sig) {
                rep.known(&v.sig, &k.text);
            } else {
                rep.violation(v);
            }
        }
    }
    let cases = ctx.tier.pick(32_000, 200_000) / ctx.shard_count() as u32;
    let max_len = ctx.tier.pick(90, 160);
    run_prop(ctx, "c02-ops", cases, 3000, ops_strategy(max_len), &mut rep, |case, rep| {
        let Some((start_fen, script, label)) = script_of(case, &corp) else {
            rep.class("start:rejected");
            return Ok(());
        };
        rep.class(&format!("start:{}", label.split(':').next().unwrap_or("")));
        rep.sample(|| json!({"start": label, "start_fen": start_fen, "ops": script.join("; ")}));
        run_script(&start_fen, &script, rep)
    });
    rep
}

pub fn replay(_ctx: &Ctx, case: &Value) -> Report {
    let mut rep = Report::new();
    let start_fen = case["start_fen"].as_str().unwrap_or("");
    let ops: Vec<String> = case["ops"].as_array().map(|a| a.iter().filter_map(|x| x.as_str().map(String::from)).collect()).unwrap_or_default();
    if let Err(v) = run_script(start_fen, &ops, &mut rep) {
        rep.violation(v);
    }
    rep
}

pub const LEVEL: &str = "exploration";
pub const RULE: &str = "proptest-generated stack-disciplined op sequences (make / unmake / legal_moves / in_check / find_move; moves chosen by special-move- and repetition-weighted play on the oracle) over startpos / corpus / synthesised / pattern starts. Round-trip oracle: after every unmake the whole Board == the clone taken before the make (derived PartialEq over all fields), earlier positions still remembered, legal moves unchanged; at every visited position every legal move is made and unmade; every query leaves the Board == its snapshot; the whole line is unwound at the end. Two very long games (1100 and 1300 quick / 2300 thorough plies from the start position) are made ply by ply with their queries and then taken back completely, so the nesting depth goes far beyond any bounded undo record. Non-trivial = a make/unmake pair of a special move (castle, e.p., promotion, promotion-capture, capture on a rook home square), or any pair or query at a position that repeats an earlier position of the line, or nesting depth >= 2; distinct by (position identity, move).";
pub const ASSUMPTIONS: &[&str] = &[
    "Board's derived PartialEq covers every field (checked by reading src/board.rs)",
    "the oracle is used only to choose moves and to know when a position repeats",
];
