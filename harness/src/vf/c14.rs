//! C14 - search progress reports are truthful and well-formed.
//!
//! Real engine process: `go depth N` alone (N = 1..5) and node/time-limited searches.
//! Every `info` line must be valid UCI; iteration reports must come as depth 1,2,3,...
//! without gaps or repeats, each with a score and a PV that replays as legal moves on the
//! rules oracle; a depth-N-only search reports every depth up to N before its bestmove.

use super::c09::{position_command, GoSpec};
use super::frame::*;
use super::oracle::{self as o, Game, Pos};
use super::uciproc::{self, Engine, Stream};
use super::{corpus, gen};
use proptest::prelude::*;
use serde_json::{json, Value};
use std::time::Duration;

#[derive(Debug, Default, Clone)]
pub struct Info {
    pub depth: Option<i64>,
    pub seldepth: Option<i64>,
    pub score: Option<(String, i64)>,
    pub pv: Vec<String>,
    pub has_pv: bool,
    pub nodes: Option<i64>,
}

fn is_move(tok: &str) -> bool {
    let b = tok.as_bytes();
    if tok == "0000" {
        return true;
    }
    (b.len() == 4 || b.len() == 5)
        && (b'a'..=b'h').contains(&b[0])
        && (b'1'..=b'8').contains(&b[1])
        && (b'a'..=b'h').contains(&b[2])
        && (b'1'..=b'8').contains(&b[3])
        && (b.len() == 4 || matches!(b[4], b'q' | b'r' | b'b' | b'n'))
}

fn uint(tok: Option<&&str>) -> Result<i64, String> {
    let t = tok.ok_or("missing integer")?;
    if t.is_empty() || !t.bytes().all(|c| c.is_ascii_digit()) {
        return Err(format!("'{t}' is not an unsigned integer"));
    }
    t.parse::<i64>().map_err(|e| e.to_string())
}
fn sint(tok: Option<&&str>) -> Result<i64, String> {
    let t = tok.ok_or("missing integer")?;
    let body = t.strip_prefix('-').unwrap_or(t);
    if body.is_empty() || !body.bytes().all(|c| c.is_ascii_digit()) {
        return Err(format!("'{t}' is not an integer"));
    }
    t.parse::<i64>().map_err(|e| e.to_string())
}

/// General UCI `info` syntax (any order of the standard keys).
pub fn parse_info(line: &str) -> Result<Info, String> {
    let toks: Vec<&str> = line.split_whitespace().collect();
    if toks.first() != Some(&"info") {
        return Err("does not start with 'info'".into());
    }
    const KEYS: [&str; 17] = ["depth", "seldepth", "time", "nodes", "pv", "multipv", "score", "currmove", "currmovenumber", "hashfull", "nps", "tbhits", "sbhits", "cpuload", "string", "refutation", "currline"];
    let mut info = Info::default();
    let mut i = 1;
    while i < toks.len() {
        let k = toks[i];
        i += 1;
        match k {
            "depth" => {
                info.depth = Some(uint(toks.get(i))?);
                i += 1;
            }
            "seldepth" => {
                info.seldepth = Some(uint(toks.get(i))?);
                i += 1;
            }
            "nodes" => {
                info.nodes = Some(uint(toks.get(i))?);
                i += 1;
            }
            "time" | "multipv" | "currmovenumber" | "hashfull" | "nps" | "tbhits" | "sbhits" | "cpuload" => {
                uint(toks.get(i))?;
                i += 1;
            }
            "currmove" => {
                let t = toks.get(i).ok_or("missing move after currmove")?;
                if !is_move(t) {
                    return Err(format!("'{t}' is not a move"));
                }
                i += 1;
            }
            "score" => {
                let kind = *toks.get(i).ok_or("missing score kind")?;
                if kind != "cp" && kind != "mate" {
                    return Err(format!("score kind '{kind}' is neither cp nor mate"));
                }
                let v = sint(toks.get(i + 1))?;
                i += 2;
                if matches!(toks.get(i), Some(&"lowerbound") | Some(&"upperbound")) {
                    i += 1;
                }
                info.score = Some((kind.to_string(), v));
            }
            "pv" | "refutation" | "currline" => {
                let mut n = 0;
                while i < toks.len() && !KEYS.contains(&toks[i]) {
                    if !is_move(toks[i]) {
                        return Err(format!("'{}' in the {k} is not a move in coordinate notation", toks[i]));
                    }
                    if k == "pv" {
                        info.pv.push(toks[i].to_string());
                    }
                    n += 1;
                    i += 1;
                }
                if k == "pv" {
                    info.has_pv = true;
                    if n == 0 {
                        return Err("empty pv".into());
                    }
                }
            }
            "string" => {
                i = toks.len();
            }
            other => return Err(format!("unknown info key '{other}'")),
        }
    }
    Ok(info)
}

#[derive(Clone, Debug)]
pub struct Case {
    pub game: gen::GameCase,
    pub mode: u8,
    pub n: u8,
    pub ent: Vec<u16>,
}

pub fn strategy() -> impl Strategy<Value = Case> {
    (gen::game_strategy(40), 0u8..6, 1u8..=5, proptest::collection::vec(any::<u16>(), 8)).prop_map(|(game, mode, n, ent)| Case { game, mode, n, ent })
}

#[derive(Clone, Debug)]
pub struct StepSpec {
    /// number of `isready` lines sent in bursts while the search runs (its readyok answers
    /// interleave with the info lines on stdout)
    pub flood: usize,
    pub position: String,
    pub fen_after: String,
    pub go: String,
    pub depth_only: Option<u64>,
    pub deadline_ms: u64,
}

pub fn steps_json(steps: &[StepSpec]) -> Value {
    json!({"steps": steps.iter().map(|s| json!({"flood": s.flood, "position": s.position, "fen_after": s.fen_after, "go": s.go, "depth_only": s.depth_only, "deadline_ms": s.deadline_ms})).collect::<Vec<_>>()})
}

/// One (position, go) on a running engine: collects the info lines up to the bestmove and
/// judges them.  Ok(Some(bestmove)) / Ok(None) = not judged (no bestmove: C09's subject).
/// The Violation's replay is filled in by the caller.
pub fn judge_one(eng: &mut Engine, st: &StepSpec, rep: &mut Report) -> Result<Option<String>, Violation> {
    let (position, fen_after, go, depth_only) = (st.position.as_str(), st.fen_after.as_str(), st.go.as_str(), st.depth_only);
    let deadline = Duration::from_millis(st.deadline_ms);
    let fail = |clause: &str, sig: String, detail: String| -> Violation { Violation::new(clause, &sig, detail, json!(null)) };
    eng.send(position);
    eng.send(go);
    rep.eval(1);
    let root = Pos::from_fen(fen_after).unwrap();
    let mut infos: Vec<(String, Info)> = vec![];
    let bestmove;
    let mut flood_left = st.flood;
    if flood_left > 0 {
        rep.class("isready-flood-during-search");
    }
    loop {
        // keep the command loop answering while the search prints
        if flood_left > 0 {
            let burst = flood_left.min(40);
            let mut text = String::new();
            for _ in 0..burst {
                text.push_str("isready\n");
            }
            eng.send_raw(text.as_bytes());
            flood_left -= burst;
        }
        let ev = eng.wait_for(deadline, |e| e.stream == Stream::Out || e.eof || (e.stream == Stream::Err && uciproc::is_panic_line(&e.line)));
        match ev {
            None => {
                // no bestmove in time: C09's subject, not judged here
                rep.class("skipped:no-bestmove(C09)");
                return Ok(None);
            }
            Some(e) if e.stream == Stream::Err || e.eof => {
                rep.class("skipped:search-thread-died(C09)");
                return Ok(None);
            }
            Some(e) => {
                if e.line.starts_with("bestmove") {
                    bestmove = e.line.split_whitespace().nth(1).unwrap_or("").to_string();
                    break;
                }
                // every stdout line of a search is an info line, a readyok or the bestmove
                let t = e.line.trim();
                if st.flood > 0 && !t.is_empty() && t != "readyok" && !t.starts_with("info") {
                    return Err(fail("syntax", "syntax/garbled-line".into(), format!("'{go}' at {fen_after} with isready sent during the search: stdout line '{}' is neither an info line, readyok nor bestmove", e.line)));
                }
                if e.line.starts_with("info") {
                    match parse_info(&e.line) {
                        Ok(i) => infos.push((e.line.clone(), i)),
                        Err(why) => {
                            return Err(fail("syntax", "syntax/info-line".into(), format!("'{go}' at {fen_after}: malformed info line '{}': {why}", e.line)));
                        }
                    }
                }
            }
        }
    }
    let iters: Vec<&(String, Info)> = infos.iter().filter(|(_, i)| i.depth.is_some()).collect();
    for (k, (line, inf)) in iters.iter().enumerate() {
        let d = inf.depth.unwrap();
        if d != k as i64 + 1 {
            let kind = if d <= k as i64 { "repeat-or-backwards" } else { "gap" };
            return Err(fail("order", format!("order/{kind}"), format!("'{go}' at {fen_after}: iteration report #{} has depth {d} ('{line}')", k + 1)));
        }
        if inf.score.is_none() {
            return Err(fail("syntax", "syntax/no-score".into(), format!("'{go}' at {fen_after}: iteration report without a score: '{line}'")));
        }
        if !inf.has_pv {
            return Err(fail("syntax", "syntax/no-pv".into(), format!("'{go}' at {fen_after}: iteration report without a pv: '{line}'")));
        }
        let mut p = root.clone();
        for (j, mv) in inf.pv.iter().enumerate() {
            match p.find_legal(mv) {
                Some(m) => p = p.make(m),
                None => {
                    return Err(fail("pv", format!("pv/illegal-move/ply{}", (j + 1).min(3)), format!("'{go}' at {fen_after}: pv move #{} '{mv}' of '{line}' is not legal (position then: {})", j + 1, p.to_fen())));
                }
            }
        }
        if let Some((kind, _)) = &inf.score {
            rep.class(if kind == "mate" { "score:mate" } else { "score:cp" });
        }
        if inf.pv.len() >= 2 {
            rep.class("pv:len>=2");
        }
    }
    if let Some(n) = depth_only {
        if iters.len() as u64 != n {
            return Err(fail("complete", format!("complete/depth-{}-of-{}", iters.len().min(9), n.min(9)), format!("'{go}' at {fen_after}: {} iteration reports before bestmove, expected exactly {n}", iters.len())));
        }
        rep.class(&format!("depth-only:N={}", if n > 5 { ">5".to_string() } else { n.to_string() }));
        if n >= 2 {
            rep.nontrivial(o::hash_str(&format!("{fen_after}|{go}")));
        }
    } else {
        rep.class("limited:nodes-or-time");
        if iters.len() >= 2 {
            rep.nontrivial(o::hash_str(&format!("{fen_after}|{go}")));
        }
    }
    *LAST_PV.lock().unwrap() = iters.last().map(|(_, i)| i.pv.clone()).unwrap_or_default();
    rep.class_n("iteration-reports", iters.len() as u64);
    rep.sample(|| json!({"position": position, "go": go, "reports": infos.iter().map(|x| x.0.clone()).take(8).collect::<Vec<_>>()}));
    Ok(Some(bestmove))
}

/// principal variation of the last iteration report of the most recent `judge_one`
pub static LAST_PV: std::sync::Mutex<Vec<String>> = std::sync::Mutex::new(Vec::new());

/// A fixed list of steps on one fresh engine process.
pub fn run_steps(ctx: &Ctx, steps: &[StepSpec], rep: &mut Report) -> Result<(), Violation> {
    let mut eng = match Engine::spawn(&ctx.engine, &[]) {
        Ok(e) => e,
        Err(e) => {
            rep.infra_errors.push(format!("cannot spawn engine: {e}"));
            return Ok(());
        }
    };
    if !eng.ready(Duration::from_secs(10)) {
        rep.infra_errors.push("engine did not answer the first isready".into());
        return Ok(());
    }
    for (i, st) in steps.iter().enumerate() {
        match judge_one(&mut eng, st, rep) {
            Ok(Some(_)) => {}
            Ok(None) => break,
            Err(mut v) => {
                let mut r = steps_json(&steps[..=i]);
                r["transcript"] = json!(eng.transcript(30));
                v.replay = r;
                return Err(v);
            }
        }
    }
    eng.send("quit");
    let _ = eng.wait_exit(Duration::from_secs(2));
    Ok(())
}

pub fn search_case(ctx: &Ctx, position: &str, fen_after: &str, go: &str, depth_only: Option<u64>, deadline: Duration, rep: &mut Report) -> Result<(), Violation> {
    run_steps(ctx, &[StepSpec { flood: 0, position: position.into(), fen_after: fen_after.into(), go: go.into(), depth_only, deadline_ms: deadline.as_millis() as u64 }], rep)
}

/// Game flow: several searches in ONE engine process along a game (the engine's own move, then
/// a generated reply), so later searches meet cache entries left by earlier ones.
pub fn flow_case(ctx: &Ctx, start: &Pos, gos: usize, depth: u64, replies: &[u16], rep: &mut Report) -> Result<(), Violation> {
    flow_case_from(ctx, &Game::new(start.clone()), gos, depth, replies, rep)
}

pub fn flow_case_from(ctx: &Ctx, from: &Game, gos: usize, depth: u64, replies: &[u16], rep: &mut Report) -> Result<(), Violation> {
    flow_case_kinds(ctx, from, gos, depth, replies, &[], rep)
}

/// `kinds[k]`: 0 = go depth, 1 = game clock, 2 = movetime, 3 = nodes; bit 2 set = the opponent
/// answers with the move the engine expected (second move of its last PV), so the next root
/// is a position the cache already holds an entry for.
pub fn flow_case_kinds(ctx: &Ctx, from: &Game, gos: usize, depth: u64, replies: &[u16], kinds: &[u8], rep: &mut Report) -> Result<(), Violation> {
    let mut eng = match Engine::spawn(&ctx.engine, &[]) {
        Ok(e) => e,
        Err(e) => {
            rep.infra_errors.push(format!("cannot spawn engine: {e}"));
            return Ok(());
        }
    };
    if !eng.ready(Duration::from_secs(10)) {
        rep.infra_errors.push("engine did not answer the first isready".into());
        return Ok(());
    }
    let mut game = from.clone();
    let mut steps: Vec<StepSpec> = vec![];
    for k in 0..gos {
        if game.cur.legal_moves().is_empty() {
            break;
        }
        let kind = kinds.get(k).copied().unwrap_or(0);
        let (go, depth_only, deadline_ms) = match kind & 3 {
            1 => ("go wtime 2000 btime 2000 winc 0 binc 0".to_string(), None, 2000 + 3000),
            2 => ("go movetime 80".to_string(), None, 80 + 3000),
            3 => ("go nodes 30000".to_string(), None, 120_000),
            _ => (format!("go depth {depth}"), Some(depth), 120_000),
        };
        rep.class(["flow-go:depth", "flow-go:game-clock", "flow-go:movetime", "flow-go:nodes"][(kind & 3) as usize]);
        let st = StepSpec { flood: 0, position: position_command(&game.start, &game.moves_uci()), fen_after: game.cur.to_fen(), go, depth_only, deadline_ms };
        steps.push(st.clone());
        let best = match judge_one(&mut eng, &st, rep) {
            Ok(Some(b)) => b,
            Ok(None) => break,
            Err(mut v) => {
                let mut r = steps_json(&steps);
                r["transcript"] = json!(eng.transcript(30));
                v.replay = r;
                v.sig = format!("{}/game-flow", v.sig);
                return Err(v);
            }
        };
        rep.class("flow:go");
        if k > 0 {
            rep.class("flow:later-go(cache holds earlier searches)");
        }
        let Some(m) = game.cur.find_legal(&best) else { break };
        game.play(m);
        let legal = game.cur.legal_moves();
        if legal.is_empty() {
            break;
        }
        let expected = LAST_PV.lock().unwrap().get(1).cloned().and_then(|u| game.cur.find_legal(&u));
        let r = match expected {
            Some(m) if kind & 4 != 0 => {
                rep.class("flow:reply-is-the-expected-move(next root already cached)");
                m
            }
            _ => legal[pick16(replies.get(k).copied().unwrap_or(0), legal.len())],
        };
        game.play(r);
    }
    eng.send("quit");
    let _ = eng.wait_exit(Duration::from_secs(2));
    Ok(())
}

pub const SHARDS: usize = 8;

pub fn run(ctx: &Ctx) -> Report {
    if ctx.shard.is_none() {
        return run_sharded(ctx, SHARDS, SHARDS);
    }
    let mut rep = Report::new();
    let corp = corpus::load(&ctx.verif);
    if ctx.shard_index() == 0 {
        // parser self-check (harness fault if it fails)
        for (l, ok) in [
            ("info depth 3 seldepth 5 nodes 1234 time 12 nps 100000 score cp -31 pv e2e4 e7e5 g1f3", true),
            ("info depth 2 nodes 20   score mate -1 pv a7a8q", true),
            ("info depth x nodes 1 score cp 0 pv e2e4", false),
            ("info depth 1 nodes 1 score cp 0 pv e2e9", false),
            ("info depth 1 nodes 1 score 0 pv e2e4", false),
            ("info string hello world", true),
        ] {
            if parse_info(l).is_ok() != ok {
                rep.infra_errors.push(format!("info parser self-check failed on '{l}'"));
            }
        }
        let sp = Pos::startpos().to_fen();
        for n in 1..=4u64 {
            let go = format!("go depth {n}");
            if let Err(v) = search_case(ctx, "position startpos", &sp, &go, Some(n), Duration::from_secs(120), &mut rep) {
                if let Some(k) = ctx.is_known(&v.sig) {
                    rep.known(&v.sig, &k.text);
                } else {
                    rep.violation(v);
                }
            }
        }
    }
    // 'go depth 255' (the top of the range) on a position whose forced mate keeps every iteration tiny
    if ctx.shard_index() == 1 {
        let pos = "position fen 8/1R6/2N2P2/2kP4/2P4P/3P4/8/6K1 w - - 1 94 moves f6f7 c5d6";
        let mut g = Game::new(Pos::from_fen("8/1R6/2N2P2/2kP4/2P4P/3P4/8/6K1 w - - 1 94").unwrap());
        for u in ["f6f7", "c5d6"] {
            let m = g.cur.find_legal(u).unwrap();
            g.play(m);
        }
        for n in [40u64, 255] {
            if let Err(v) = search_case(ctx, pos, &g.cur.to_fen(), &format!("go depth {n}"), Some(n), Duration::from_secs(120), &mut rep) {
                if let Some(k) = ctx.is_known(&v.sig) {
                    rep.known(&v.sig, &k.text);
                } else {
                    rep.violation(v);
                }
            }
        }
    }
    // searches during which the GUI keeps asking isready (readyok lines interleave with info lines)
    {
        let kk = "8/8/8/3k4/8/3K4/8/8 w - - 0 1".to_string();
        let kiwi = "r3k2r/p1ppqpb1/bn2pnp1/3PN3/1p2P3/2N2Q1p/PPPBBPPP/R3K2R w KQkq - 0 1".to_string();
        // bare kings: 'go depth 60/100' finishes at once and prints that many info lines while the isready lines arrive
        let plan: [(String, &str, Option<u64>); 8] = [
            (kk.clone(), "go depth 60", Some(60)),
            (kk.clone(), "go movetime 400", None),
            (kiwi.clone(), "go depth 5", Some(5)),
            (Pos::startpos().to_fen(), "go movetime 400", None),
            (Pos::startpos().to_fen(), "go depth 5", Some(5)),
            (kk.clone(), "go depth 100", Some(100)),
            (kiwi, "go movetime 300", None),
            (kk, "go nodes 200000", None),
        ];
        let (fen, go, depth_only) = &plan[ctx.shard_index() % 8];
        let st = StepSpec { flood: ctx.tier.pick(2000, 20_000), position: format!("position fen {fen}"), fen_after: fen.clone(), go: go.to_string(), depth_only: *depth_only, deadline_ms: 120_000 };
        if let Err(v) = run_steps(ctx, &[st], &mut rep) {
            if let Some(k) = ctx.is_known(&v.sig) {
                rep.known(&v.sig, &k.text);
            } else {
                rep.violation(v);
            }
        }
    }
    // soak: ONE long-lived engine process whose cache has been filled by millions of nodes of
    // earlier searches (quiet endgames: little quiescence, so almost every node stores an
    // entry); every search on the way is judged, and at the end depth-limited searches of
    // positions it has never seen must still report every depth with a legal, non-empty pv
    if ctx.shard_index() == 2 {
        let warm = ctx.tier.pick(26usize, 260);
        let quiet: Vec<&String> = corp.fens.iter().zip(corp.positions.iter()).filter(|(_, p)| p.material_count() <= 9 && p.legal_moves().len() >= 4 && !p.in_check(p.wtm)).map(|(f, _)| f).collect();
        if quiet.len() >= 12 {
            let mut steps: Vec<StepSpec> = vec![];
            for k in 0..warm {
                let fen = quiet[(k * 7 + 3) % (quiet.len() - 6)];
                steps.push(StepSpec { flood: 0, position: format!("position fen {fen}"), fen_after: fen.to_string(), go: "go nodes 1200000".into(), depth_only: None, deadline_ms: 300_000 });
            }
            for k in 0..6 {
                let fen = quiet[quiet.len() - 1 - k];
                steps.push(StepSpec { flood: 0, position: format!("position fen {fen}"), fen_after: fen.to_string(), go: "go depth 3".into(), depth_only: Some(3), deadline_ms: 120_000 });
            }
            rep.class_n("soak:searches-in-one-process", steps.len() as u64);
            rep.class_n("soak:million-nodes-before-the-final-probes", (warm as u64 * 12) / 10);
            if let Err(mut v) = run_steps(ctx, &steps, &mut rep) {
                v.sig = format!("{}/soak", v.sig);
                // the replay keeps only what is needed to see it again: all steps
                if let Some(k) = ctx.is_known(&v.sig) {
                    rep.known(&v.sig, &k.text);
                } else {
                    rep.violation(v);
                }
            }
        }
    }
    // one long search whose later iterations take seconds each (whatever the engine prints while
    // an iteration is still running must be a well-formed line too, and the completed iterations
    // must still come in order, once each)
    if ctx.shard_index() == 3 {
        let kiwi = "r3k2r/p1ppqpb1/bn2pnp1/3PN3/1p2P3/2N2Q1p/PPPBBPPP/R3K2R w KQkq - 0 1";
        let ms = ctx.tier.pick(7000u64, 40_000);
        rep.class("long-search(iterations of several seconds)");
        let st = StepSpec { flood: 0, position: format!("position fen {kiwi}"), fen_after: kiwi.to_string(), go: format!("go movetime {ms}"), depth_only: None, deadline_ms: ms + 5000 };
        if let Err(v) = run_steps(ctx, &[st], &mut rep) {
            if let Some(k) = ctx.is_known(&v.sig) {
                rep.known(&v.sig, &k.text);
            } else {
                rep.violation(v);
            }
        }
    }
    // deep depth-only searches of pawn endings (tiny trees): the score changes by a queen when the
    // promotion comes inside the horizon, late in the iteration sequence
    let deep = ctx.tier.pick(96, 1600) / ctx.shard_count() as u32;
    run_prop(ctx, "c14-deep-endgame", deep, 20, (gen::synth_strategy(), 8u64..=11), &mut rep, |(ent, n), rep| {
        let mut e = Entropy::new(ent);
        let mut p = Pos::empty();
        let wk = e.pick(64);
        let c: Vec<usize> = (0..64).filter(|&s| (o::file_of(s) - o::file_of(wk)).abs().max((o::rank_of(s) - o::rank_of(wk)).abs()) > 1).collect();
        p.sq[wk] = o::mk(true, o::K);
        p.sq[c[e.pick(c.len())]] = o::mk(false, o::K);
        for _ in 0..1 + e.pick(2) {
            let white = e.pick(3) != 0;
            let r = if white { 1 + e.pick(4) as i32 } else { 6 - e.pick(4) as i32 };
            let f = e.pick(8) as i32;
            if p.sq[o::sq(f, r)] == 0 {
                p.sq[o::sq(f, r)] = o::mk(white, o::P);
            }
        }
        p.wtm = e.pick(2) == 0;
        p.fmn = 40 + e.pick(30) as u32;
        if p.is_valid_start().is_err() || p.legal_moves().is_empty() {
            return Ok(());
        }
        rep.class("root:pawn-ending(depth 8-11)");
        search_case(ctx, &format!("position fen {}", p.to_fen()), &p.to_fen(), &format!("go depth {n}"), Some(*n), Duration::from_secs(300), rep)
    });
    // the fifty-move clock at 99 at the root and a large depth limit: every depth up to N must
    // still be reported
    let edge = ctx.tier.pick(64, 1200) / ctx.shard_count() as u32;
    run_prop(ctx, "c14-clock-edge", edge, 20, (gen::synth_strategy(), 12u64..=40), &mut rep, |(ent, n), rep| {
        let mut e = Entropy::new(ent);
        let mut p = Pos::empty();
        let wk = e.pick(64);
        let c: Vec<usize> = (0..64).filter(|&s| (o::file_of(s) - o::file_of(wk)).abs().max((o::rank_of(s) - o::rank_of(wk)).abs()) > 1).collect();
        p.sq[wk] = o::mk(true, o::K);
        p.sq[c[e.pick(c.len())]] = o::mk(false, o::K);
        for _ in 0..1 + e.pick(3) {
            let t = [o::R, o::N, o::B, o::Q, o::R][e.pick(5)];
            let free: Vec<usize> = (0..64).filter(|&s| p.sq[s] == 0).collect();
            p.sq[free[e.pick(free.len())]] = o::mk(e.pick(2) == 0, t);
        }
        p.wtm = e.pick(2) == 0;
        p.hmc = 99;
        p.fmn = 100 + e.pick(40) as u32;
        if p.is_valid_start().is_err() || p.legal_moves().is_empty() || p.legal_moves().len() > 30 {
            return Ok(());
        }
        // no capture at the root (a capture resets the clock and opens a real tree below it):
        // every root move then runs into the draw rule at once and any depth is cheap
        if p.legal_moves().iter().any(|m| m.is_capture()) {
            rep.class("skipped:capture-at-the-root");
            return Ok(());
        }
        rep.class("root:fifty-move-clock-99-no-capture(depth 12-40)");
        search_case(ctx, &format!("position fen {}", p.to_fen()), &p.to_fen(), &format!("go depth {n}"), Some(*n), Duration::from_secs(300), rep)
    });
    // roots from mate nets, either side to move (forced wins and forced losses at the root)
    let nets = ctx.tier.pick(160, 3200) / ctx.shard_count() as u32;
    run_prop(ctx, "c14-nets", nets, 20, (gen::synth_strategy(), 2u64..=5), &mut rep, |(ent, n), rep| {
        let Some(p) = super::c12::mate_net_pos(&mut Entropy::new(ent)) else { return Ok(()) };
        let legal = p.legal_moves().len();
        if legal == 0 || legal > 30 {
            return Ok(());
        }
        rep.class("root:mate-net");
        search_case(ctx, &format!("position fen {}", p.to_fen()), &p.to_fen(), &format!("go depth {n}"), Some(*n), Duration::from_secs(120), rep)
    });
    // game flow: 6-10 consecutive depth-3/4 searches along a game in one engine process
    let flows = ctx.tier.pick(48, 800) / ctx.shard_count() as u32;
    let fstrat = (gen::game_strategy(24), proptest::collection::vec(any::<u16>(), 10), 3u64..=4, 6usize..=10, proptest::collection::vec(0u8..8, 10));
    run_prop(ctx, "c14-flow", flows, 20, fstrat, &mut rep, |(g, replies, depth, gos, kinds), rep| {
        let mix = gen::StartMix { startpos: 4, corpus: 6, synth: 2, pattern: 3 };
        let Some((start, _)) = gen::start_pos(&g.start, &corp, mix) else { return Ok(()) };
        let mut game = Game::new(start);
        for &ch in &g.choices {
            let legal = game.cur.legal_moves();
            if legal.is_empty() {
                break;
            }
            game.play(gen::choose_move(&game, &legal, g.weighted, ch));
        }
        while game.cur.legal_moves().is_empty() && !game.moves.is_empty() {
            game.undo();
        }
        if game.cur.legal_moves().is_empty() || game.cur.legal_moves().len() > 38 {
            return Ok(());
        }
        // keep the played history (repetitions matter to the search) by starting the flow from the game
        let mut flow_start = Game::new(game.start.clone());
        for m in &game.moves {
            flow_start.play(*m);
        }
        rep.class("flow:session");
        // one flow in three is depth-only throughout (its reports are counted exactly)
        let kinds: Vec<u8> = if replies[0] % 3 == 0 { kinds.iter().map(|k| k & 4).collect() } else { kinds.clone() };
        flow_case_kinds(ctx, &flow_start, *gos, *depth, replies, &kinds, rep)
    });
    let cases = ctx.tier.pick(1600, 24_000) / ctx.shard_count() as u32;
    run_prop(ctx, "c14", cases, 40, strategy(), &mut rep, |c, rep| {
        let mix = gen::StartMix { startpos: 2, corpus: 6, synth: 3, pattern: 5 };
        let Some((start, _)) = gen::start_pos(&c.game.start, &corp, mix) else { return Ok(()) };
        let mut game = Game::new(start);
        for &ch in &c.game.choices {
            let legal = game.cur.legal_moves();
            if legal.is_empty() {
                break;
            }
            game.play(gen::choose_move(&game, &legal, c.game.weighted, ch));
        }
        while game.cur.legal_moves().is_empty() && !game.moves.is_empty() {
            game.undo();
        }
        if game.cur.legal_moves().is_empty() {
            return Ok(());
        }
        let position = position_command(&game.start, &game.moves_uci());
        let fen = game.cur.to_fen();
        let mut e = Entropy::new(&c.ent);
        if c.mode < 4 {
            // depth only; depth 5 only on positions with few moves
            let mut n = c.n as u64;
            if n == 5 && game.cur.legal_moves().len() > 25 {
                n = 4;
            }
            search_case(ctx, &position, &fen, &format!("go depth {n}"), Some(n), Duration::from_secs(120), rep)
        } else if c.mode == 4 {
            let nodes = [50u64, 500, 3000, 20_000, 100_000][e.pick(5)];
            search_case(ctx, &position, &fen, &format!("go nodes {nodes}"), None, Duration::from_secs(120), rep)
        } else {
            let ms = [5u64, 30, 100, 300][e.pick(4)];
            search_case(ctx, &position, &fen, &format!("go movetime {ms}"), None, Duration::from_millis(ms + 2000), rep)
        }
    });
    rep
}

pub fn replay(ctx: &Ctx, case: &Value) -> Report {
    let mut rep = Report::new();
    let mut steps: Vec<StepSpec> = vec![];
    if let Some(a) = case["steps"].as_array() {
        for s in a {
            steps.push(StepSpec {
                flood: s["flood"].as_u64().unwrap_or(0) as usize,
                position: s["position"].as_str().unwrap_or("position startpos").into(),
                fen_after: s["fen_after"].as_str().unwrap_or("").into(),
                go: s["go"].as_str().unwrap_or("go depth 1").into(),
                depth_only: s["depth_only"].as_u64(),
                deadline_ms: s["deadline_ms"].as_u64().unwrap_or(120_000),
            });
        }
    } else {
        steps.push(StepSpec {
            flood: case["flood"].as_u64().unwrap_or(0) as usize,
            position: case["position"].as_str().unwrap_or("position startpos").into(),
            fen_after: case["fen_after"].as_str().unwrap_or("").into(),
            go: case["go"].as_str().unwrap_or("go depth 1").into(),
            depth_only: case["depth_only"].as_u64(),
            deadline_ms: case["deadline_ms"].as_u64().unwrap_or(120_000),
        });
    }
    if let Err(v) = run_steps(ctx, &steps, &mut rep) {
        rep.violation(v);
    }
    rep
}

pub const LEVEL: &str = "exploration";
pub const RULE: &str = "searches on the real engine binary: positions with >= 1 legal move (startpos / corpus / synthesised / pattern starts incl. mate nets, plus up to 40 plies of play) x 'go depth N' alone (N = 1..5; 5 only with <= 25 legal moves; plus N = 40 and 255 on a forced-mate position), roots from constructed mate nets with either side to move (forced wins and forced losses), searches during which isready is sent 2000 times (every stdout line must be an info line, readyok or the bestmove), game-flow sessions (6-10 consecutive depth-3/4 searches along a game in ONE engine process: the engine's own move, then a generated reply, so later searches meet cache entries of earlier ones) and, for the ordering and PV clauses, 'go nodes {50..100000}' / 'go movetime {5..300}'. Oracle: every stdout line starting with 'info' parses as UCI info (standard keys in any order, well-formed integers, moves in coordinate notation, score cp|mate); lines carrying 'depth' have depths exactly 1,2,...,k, each with a score and a non-empty pv that replays as legal moves from the searched position on the rules oracle; under 'go depth N' alone k == N before the bestmove. Game flows mix the go kinds (depth / game clock 2 s a side / movetime 80 / nodes 30000), and in half of the steps the opponent's reply is the move the engine expected (second pv move), so that the next root is a position the cache already holds. One long search (movetime 7 s quick / 40 s thorough on a middlegame position, so that single iterations last seconds) and depth-only searches to depth 8-11 of pawn endings (the score jumps by a queen late in the iteration sequence) are judged like all others. Roots with the fifty-move clock at 99 and no capture available (every root move runs into the draw rule at once) are searched with depth limits of 12-40. A soak session (one engine process, 26 quick / 260 thorough searches of 1.2 million nodes each on quiet endgames, where nearly every node stores a cache entry, every one of them judged, then six depth-3 searches of positions not seen before) covers long-lived processes with a full cache. A missing bestmove is C09's subject and only counted here. Non-trivial = depth-only search with N >= 2, or a limited search with >= 2 iteration reports; distinct by (position, go command).";
pub const ASSUMPTIONS: &[&str] = &["the rules oracle replays the PVs", "whether a reported mate distance is right is not asserted (the statement does not fix it)"];
