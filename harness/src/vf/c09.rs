//! C09 - every `go` is answered by exactly one legal `bestmove`, whatever the limits.
//!
//! Real engine process.  Sessions of 1..5 (position, go <limits>) pairs; limits are any
//! mix of depth / nodes / movetime / wtime / btime / winc / binc including 0, 1 and tiny
//! budgets.  Oracle: exactly one `bestmove` per `go`, legal per the rules oracle, before
//! the deadline the limits allow (+3 s), then `isready` -> `readyok`.

use super::frame::*;
use super::oracle::{self as o, Game, Pos};
use super::uciproc::{self, Engine, Stream};
use super::{corpus, gen};
use proptest::prelude::*;
use serde_json::{json, Value};
use std::time::Duration;

#[derive(Clone, Debug, Default, PartialEq)]
pub struct GoSpec {
    pub depth: Option<u64>,
    pub nodes: Option<u64>,
    pub movetime: Option<u64>,
    pub wtime: Option<u64>,
    pub btime: Option<u64>,
    pub winc: Option<u64>,
    pub binc: Option<u64>,
}

impl GoSpec {
    pub fn command(&self) -> String {
        let mut s = String::from("go");
        for (k, v) in [("wtime", self.wtime), ("btime", self.btime), ("winc", self.winc), ("binc", self.binc), ("depth", self.depth), ("nodes", self.nodes), ("movetime", self.movetime)] {
            if let Some(v) = v {
                s.push_str(&format!(" {k} {v}"));
            }
        }
        s
    }
    /// upper bound (ms) the limits put on thinking time for the side to move, if any
    pub fn time_bound_ms(&self, wtm: bool) -> Option<u64> {
        let own = if wtm { self.wtime.map(|t| t + self.winc.unwrap_or(0)) } else { self.btime.map(|t| t + self.binc.unwrap_or(0)) };
        let b = match (self.movetime, own) {
            (Some(a), Some(b)) => Some(a.min(b)),
            (a, b) => a.or(b),
        };
        // a bound of more than ten minutes is no bound a check can wait for
        b.filter(|ms| *ms <= 600_000)
    }
    pub fn class(&self, wtm: bool) -> Vec<&'static str> {
        let mut v = vec![];
        if self.depth.is_some() {
            v.push(if self.depth.unwrap() <= 2 { "depth<=2" } else { "depth" });
        }
        if let Some(n) = self.nodes {
            v.push(if n <= 50 { "nodes-tiny" } else { "nodes" });
        }
        if let Some(t) = self.movetime {
            v.push(if t <= 5 { "movetime-tiny" } else { "movetime" });
        }
        let (own, opp) = if wtm { (self.wtime, self.btime) } else { (self.btime, self.wtime) };
        if let Some(t) = own {
            v.push(if t <= 100 { "own-clock-tiny" } else { "own-clock" });
        }
        if opp.is_some() && own.is_none() {
            v.push("only-opponent-clock");
        }
        if self.winc.is_some() || self.binc.is_some() {
            v.push("increment");
        }
        v
    }
    pub fn can_cut_first_iteration(&self, wtm: bool) -> bool {
        self.nodes.map_or(false, |n| n <= 2000) || self.time_bound_ms(wtm).map_or(false, |t| t <= 20) || self.depth.map_or(false, |d| d <= 2) || {
            let (own, opp) = if wtm { (self.wtime, self.btime) } else { (self.btime, self.wtime) };
            own.is_none() && (opp.is_some() || self.winc.is_some() || self.binc.is_some())
        }
    }
}

/// G-limits
pub fn go_spec(e: &mut Entropy, wtm: bool) -> GoSpec {
    let mut g = GoSpec::default();
    const NODES: [u64; 14] = [1, 2, 3, 5, 10, 20, 50, 100, 300, 1000, 3000, 10_000, 50_000, 200_000];
    const MT: [u64; 8] = [0, 1, 2, 5, 10, 50, 200, 400];
    const CLK: [u64; 8] = [0, 1, 10, 100, 1000, 5000, 20_000, 60_000];
    const INC: [u64; 6] = [0, 1, 10, 100, 1000, 4000];
    // values at the top of the ranges (only next to a small node budget, which then ends the search)
    const HUGE: [u64; 4] = [u64::MAX, 1 << 63, 10_000_000_000_000, 4_294_967_296];
    if e.chance(2, 5) {
        g.nodes = Some(NODES[e.pick(NODES.len())]);
    }
    if e.chance(2, 6) {
        g.movetime = Some(MT[e.pick(MT.len())]);
    }
    if e.chance(2, 6) {
        let i = e.pick(9);
        g.wtime = Some(CLK[if i >= 8 { 4 } else { i }]);
    }
    if e.chance(2, 6) {
        let i = e.pick(9);
        g.btime = Some(CLK[if i >= 8 { 4 } else { i }]);
    }
    if e.chance(1, 5) {
        g.winc = Some(INC[e.pick(INC.len())]);
    }
    if e.chance(1, 5) {
        g.binc = Some(INC[e.pick(INC.len())]);
    }
    if g.nodes.map_or(false, |n| n <= 10_000) && e.chance(1, 8) {
        let h = HUGE[e.pick(HUGE.len())];
        match e.pick(4) {
            0 => g.movetime = Some(h),
            1 => g.wtime = Some(h),
            2 => g.btime = Some(h),
            _ => {
                g.winc = Some(h);
                g.binc = Some(h);
            }
        }
    }
    let own_clock = if wtm { g.wtime } else { g.btime };
    let bounded = g.nodes.is_some() || g.movetime.is_some() || own_clock.is_some();
    if bounded {
        if e.chance(1, 3) {
            let span = if e.chance(1, 4) { 255 } else { 8 };
            g.depth = Some(1 + e.pick(span) as u64);
        }
    } else {
        // depth alone must bound the work
        g.depth = Some(1 + e.pick(5) as u64);
    }
    // the engine spends own_time/20 + inc/2: keep 60 s clocks rare by construction above
    g
}

pub fn position_command(start: &Pos, moves: &[String]) -> String {
    let mut s = if *start == Pos::startpos() { "position startpos".to_string() } else { format!("position fen {}", start.to_fen()) };
    if !moves.is_empty() {
        s.push_str(" moves ");
        s.push_str(&moves.join(" "));
    }
    s
}

#[derive(Clone, Debug)]
pub struct Step {
    /// harmless commands sent before this step's position (idle stop, isready, ucinewgame,
    /// setoption, uci): they must not disturb the answer to the go that follows
    pub pre: Vec<String>,
    pub position: String,
    pub go: String,
    pub fen_after: String,
    pub time_bound_ms: Option<u64>,
    pub classes: Vec<&'static str>,
    pub nontrivial: bool,
}

#[derive(Clone, Debug)]
pub struct SessionCase {
    pub ent: Vec<Vec<u16>>,
    pub games: Vec<gen::GameCase>,
}

pub fn strategy() -> impl Strategy<Value = SessionCase> {
    (proptest::collection::vec((gen::game_strategy(30), proptest::collection::vec(any::<u16>(), 24)), 1..=5)).prop_map(|v| {
        let (games, ent): (Vec<_>, Vec<_>) = v.into_iter().unzip();
        SessionCase { ent, games }
    })
}

pub fn build_steps(c: &SessionCase, corp: &corpus::Corpus) -> Vec<Step> {
    let mut steps: Vec<Step> = vec![];
    let mut prev_game: Option<Game> = None;
    for (i, g) in c.games.iter().enumerate() {
        let mix = gen::StartMix { startpos: 3, corpus: 5, synth: 3, pattern: 5 };
        // every third step continues the previous step's game by 1..3 plies, as a GUI does
        // after the engine's answer: the new root then lies inside the tree the previous go
        // searched (and cached)
        let continuation = prev_game.is_some() && c.ent[i][21] % 3 == 0;
        let mut game = if continuation {
            prev_game.clone().unwrap()
        } else {
            let Some((start, _label)) = gen::start_pos(&g.start, corp, mix) else { continue };
            Game::new(start)
        };
        // half of the continuations are "probe pairs": the previous go is made a complete
        // depth-3/4 search, the game continues by two plies (the second one a check if there is
        // one), and the new go gets a budget that completes no iteration - the answer then
        // depends on what the previous search left behind for this very position
        let probe_pair = continuation && c.ent[i][23] % 2 == 0 && !steps.is_empty();
        let choices: Vec<u16> = if probe_pair {
            g.choices.iter().take(2).copied().collect()
        } else if continuation {
            g.choices.iter().take(1 + (c.ent[i][22] % 3) as usize).copied().collect()
        } else {
            g.choices.clone()
        };
        for (k, &ch) in choices.iter().enumerate() {
            let legal = game.cur.legal_moves();
            if legal.is_empty() {
                break;
            }
            let checks: Vec<o::Mv> = legal.iter().copied().filter(|m| game.cur.make(*m).in_check(!game.cur.wtm)).collect();
            if probe_pair && k == 1 && !checks.is_empty() {
                game.play(checks[pick16(ch, checks.len())]);
            } else {
                game.play(gen::choose_move(&game, &legal, g.weighted, ch));
            }
        }
        if probe_pair {
            if let Some(prev) = steps.last_mut() {
                let d = 3 + (c.ent[i][22] % 2) as u64;
                prev.go = format!("go depth {d}");
                prev.time_bound_ms = None;
            }
        }
        while game.cur.legal_moves().is_empty() && !game.moves.is_empty() {
            game.undo();
        }
        let n_legal = game.cur.legal_moves().len();
        if n_legal == 0 {
            continue;
        }
        let wtm = game.cur.wtm;
        let mut spec = go_spec(&mut Entropy::new(&c.ent[i]), wtm);
        if probe_pair {
            spec = GoSpec::default();
            match c.ent[i][19] % 5 {
                0 => spec.nodes = Some(1),
                1 => spec.movetime = Some(0),
                2 => {
                    spec.wtime = Some(10);
                    spec.btime = Some(10);
                }
                3 => spec.nodes = Some(2),
                _ => {
                    spec.wtime = Some(1);
                    spec.btime = Some(1);
                    spec.winc = Some(0);
                }
            }
        }
        // a time-bounded go must also end in time where the capture-only quiescence tree is
        // enormous: now and then the position is a capture-saturated construction
        let mut heavy = false;
        if spec.time_bound_ms(wtm).is_some() && c.ent[i][20] % 6 == 0 {
            if let Some(hp) = gen::heavy_pos(&mut Entropy::new(&c.ent[i][4..])) {
                game = Game::new(hp);
                heavy = true;
                let w2 = game.cur.wtm;
                if w2 != wtm {
                    // keep the clock of the side to move meaningful after the swap
                    std::mem::swap(&mut spec.wtime, &mut spec.btime);
                    std::mem::swap(&mut spec.winc, &mut spec.binc);
                }
            }
        }
        let wtm = game.cur.wtm;
        let n_legal = game.cur.legal_moves().len();
        let mut classes = spec.class(wtm);
        if heavy {
            classes.insert(0, "capture-saturated-position");
        }
        if game.cur.in_check(wtm) {
            classes.push("in-check");
        }
        if n_legal <= 3 {
            classes.push("few-legal-moves");
        }
        if !steps.is_empty() {
            classes.push("later-go-of-session");
        }
        let nontrivial = spec.can_cut_first_iteration(wtm) || game.cur.in_check(wtm) || n_legal <= 3 || !steps.is_empty();
        let mut pre = vec![];
        {
            let mut e2 = Entropy::new(&c.ent[i][12..]);
            for _ in 0..e2.pick(3) {
                pre.push(["stop", "isready", "ucinewgame", "setoption name Hash value 1", "uci", "stop"][e2.pick(6)].to_string());
            }
        }
        if !pre.is_empty() {
            classes.push("idle-commands-before");
        }
        if continuation && !heavy {
            classes.push(if probe_pair { "probe-pair(complete search, then cut-short go two plies later)" } else { "continues-previous-game" });
        }
        // a capture-saturated position is only ever searched under a time bound: never continue from it
        prev_game = if heavy { None } else { Some(game.clone()) };
        steps.push(Step {
            pre,
            position: position_command(&game.start, &game.moves_uci()),
            go: spec.command(),
            fen_after: game.cur.to_fen(),
            time_bound_ms: spec.time_bound_ms(wtm),
            classes,
            nontrivial,
        });
    }
    steps
}

pub fn steps_json(steps: &[Step]) -> Value {
    json!({"steps": steps.iter().map(|s| json!({"pre": s.pre, "position": s.position, "go": s.go, "fen_after": s.fen_after, "time_bound_ms": s.time_bound_ms})).collect::<Vec<_>>()})
}

pub const ALLOWANCE_MS: u64 = 3000;

/// The scheduling allowance actually applied: 1.2 s while the machine is not overloaded (1-minute
/// load average below 12 on these 16 cores), the full 3 s otherwise.  Read once per session.
pub fn allowance_ms() -> u64 {
    let load = std::fs::read_to_string("/proc/loadavg").ok().and_then(|s| s.split_whitespace().next().and_then(|x| x.parse::<f64>().ok())).unwrap_or(99.0);
    if load < 12.0 {
        1200
    } else {
        ALLOWANCE_MS
    }
}
pub const UNBOUNDED_DEADLINE_MS: u64 = 60_000;

/// Run one session against a fresh engine process.  A timeout verdict reached while the engine
/// process was being kept from running (see `Engine::starved`) says nothing about the engine:
/// the session is run again (twice at most); if the machine stays that loaded the case is
/// reported as inconclusive (exit 2), never as a violation.
pub fn run_session(ctx: &Ctx, steps: &[Step], rep: &mut Report) -> Result<(), Violation> {
    let mut starved = 0;
    loop {
        let mut scratch = Report::new();
        let r = run_session_once(ctx, steps, if starved == 0 { &mut *rep } else { &mut scratch });
        match r {
            Err(v) if v.sig.ends_with("/starved") => {
                starved += 1;
                rep.class("timeout-while-engine-starved-of-cpu(retried; not a violation)");
                if starved >= 3 {
                    rep.infra_errors.push(format!("inconclusive: the engine process was starved of CPU in three attempts ({})", v.detail));
                    return Ok(());
                }
            }
            other => return other,
        }
    }
}

fn run_session_once(ctx: &Ctx, steps: &[Step], rep: &mut Report) -> Result<(), Violation> {
    let allowance = allowance_ms();
    let mut eng = match Engine::spawn(&ctx.engine, &[]) {
        Ok(e) => e,
        Err(e) => {
            rep.infra_errors.push(format!("cannot spawn engine: {e}"));
            return Ok(());
        }
    };
    let replay = steps_json(steps);
    let fail = |clause: &str, sig: String, detail: String, eng: &Engine| -> Violation {
        let mut r = replay.clone();
        r["transcript"] = json!(eng.transcript(40));
        Violation::new(clause, &sig, detail, r)
    };
    if !eng.ready(Duration::from_secs(10)) {
        rep.infra_errors.push("engine did not answer the first isready within 10 s".into());
        return Ok(());
    }
    let mut gos = 0usize;
    for (i, st) in steps.iter().enumerate() {
        for p in &st.pre {
            eng.send(p);
        }
        eng.send(&st.position);
        let t0 = eng.now();
        let cpu0 = eng.cpu_ms();
        eng.send(&st.go);
        gos += 1;
        rep.eval(1);
        let pos = Pos::from_fen(&st.fen_after).unwrap();
        let deadline = Duration::from_millis(st.time_bound_ms.map_or(UNBOUNDED_DEADLINE_MS, |t| t + allowance));
        let limit_class = st.classes.first().copied().unwrap_or("none");
        // wait in slices: an engine that sits completely idle (no CPU, no runnable thread) for a
        // whole slice while it owes an answer is wedged - no need to wait out a 60 s deadline
        let mut ev = None;
        let mut waited = Duration::ZERO;
        let mut idle_wedge = false;
        while waited < deadline {
            let slice = (deadline - waited).min(Duration::from_secs(4));
            let c_before = eng.cpu_ms();
            ev = eng.wait_for(slice, |e| (e.stream == Stream::Out && e.line.starts_with("bestmove")) || (e.stream == Stream::Err && uciproc::is_panic_line(&e.line)) || e.eof);
            waited += slice;
            if ev.is_some() {
                break;
            }
            if slice >= Duration::from_secs(4) {
                let used = match (c_before, eng.cpu_ms()) {
                    (Some(a), Some(b)) => b.saturating_sub(a),
                    _ => u64::MAX,
                };
                if used < 20 && eng.threads_runnable().0 == 0 && !uciproc::harness_overloaded() && eng.threads_runnable().0 == 0 {
                    idle_wedge = true;
                    break;
                }
            }
        }
        let deadline = if idle_wedge { waited } else { deadline };
        match ev {
            Some(e) if e.stream == Stream::Out && e.line.starts_with("bestmove") => {
                let mv = e.line.split_whitespace().nth(1).unwrap_or("").to_string();
                if pos.find_legal(&mv).is_none() {
                    return Err(fail("legal", format!("legal/illegal-bestmove/{limit_class}"), format!("go #{} '{}' at {}: bestmove {mv} is not legal", i + 1, st.go, st.fen_after), &eng));
                }
                let took = e.t.saturating_sub(t0).as_millis();
                rep.class_n("ms-to-bestmove(sum)", took as u64);
            }
            Some(e) if e.eof => {
                return Err(fail("one-bestmove", format!("one-bestmove/engine-exited/{limit_class}"), format!("go #{} '{}' at {}: the engine closed its output instead of answering", i + 1, st.go, st.fen_after), &eng));
            }
            Some(e) => {
                // a panic message on stderr: the search thread died, no bestmove will come
                let site = e.line.rsplit("panicked at ").next().unwrap_or("").split(':').next().unwrap_or("").rsplit('/').next().unwrap_or("").to_string();
                eng.settle(Duration::from_millis(30));
                let what = eng.stderr_lines().iter().rev().take(3).map(|x| x.line.clone()).collect::<Vec<_>>().join(" | ");
                return Err(fail("one-bestmove", format!("one-bestmove/search-thread-panic/{site}/{limit_class}"), format!("go #{} '{}' at {}: the search thread panicked and no bestmove was sent ({what})", i + 1, st.go, st.fen_after), &eng));
            }
            None => {
                let sv = if eng.starved(cpu0, deadline) { "/starved" } else { "" };
                return Err(fail("in-time", format!("in-time/no-bestmove/{limit_class}{sv}"), format!("go #{} '{}' at {}: no bestmove within {} ms{}", i + 1, st.go, st.fen_after, deadline.as_millis(), if idle_wedge { " - and the engine has been completely idle (no CPU used, no runnable thread) for the last 4 s: wedged" } else { "" }), &eng));
            }
        }
        let cpu1 = eng.cpu_ms();
        if !eng.ready(Duration::from_secs(3)) {
            let sv = if eng.starved(cpu1, Duration::from_secs(3)) { "/starved" } else { "" };
            return Err(fail("accepts-next", format!("accepts-next/no-readyok/{limit_class}{sv}"), format!("after go #{} '{}' the engine did not answer isready within 3 s", i + 1, st.go), &eng));
        }
        for c in &st.classes {
            rep.class(&format!("go:{c}"));
        }
        if st.nontrivial {
            rep.nontrivial(o::hash_str(&format!("{}|{}", st.fen_after, st.go)));
        }
    }
    eng.settle(Duration::from_millis(30));
    let n_best = eng.stdout_lines().iter().filter(|e| e.line.starts_with("bestmove")).count();
    if n_best != gos {
        return Err(fail("one-bestmove", "one-bestmove/count".into(), format!("{gos} go commands were answered by {n_best} bestmove lines"), &eng));
    }
    eng.send("quit");
    let _ = eng.wait_exit(Duration::from_secs(2));
    rep.sample(|| json!({"session": steps.iter().map(|s| format!("{} ; {}", s.position, s.go)).collect::<Vec<_>>()}));
    Ok(())
}

/// One engine process plays on along a game: its own answer, then a generated reply, go again.
pub fn flow_session(ctx: &Ctx, mut game: Game, gos: usize, replies: &[u16], rep: &mut Report) -> Result<(), Violation> {
    let allowance = allowance_ms();
    let mut eng = match Engine::spawn(&ctx.engine, &[]) {
        Ok(e) => e,
        Err(e) => {
            rep.infra_errors.push(format!("cannot spawn engine: {e}"));
            return Ok(());
        }
    };
    if !eng.ready(Duration::from_secs(10)) {
        rep.infra_errors.push("engine did not answer the first isready".into());
        return Ok(());
    }
    const GOS: [&str; 6] = ["go depth 3", "go nodes 3000", "go depth 4", "go movetime 20", "go nodes 20000", "go depth 2"];
    let mut steps: Vec<Step> = vec![];
    for k in 0..gos {
        if game.cur.legal_moves().is_empty() {
            break;
        }
        let go = GOS[pick16(replies.get(k).copied().unwrap_or(0).wrapping_mul(7), GOS.len())];
        let st = Step { pre: vec![], position: position_command(&game.start, &game.moves_uci()), go: go.into(), fen_after: game.cur.to_fen(), time_bound_ms: if go.contains("movetime") { Some(20) } else { None }, classes: vec!["flow"], nontrivial: k > 0 };
        steps.push(st.clone());
        eng.send(&st.position);
        let cpu0 = eng.cpu_ms();
        eng.send(&st.go);
        rep.eval(1);
        let deadline = Duration::from_millis(st.time_bound_ms.map_or(UNBOUNDED_DEADLINE_MS, |t| t + allowance));
        let ev = eng.wait_for(deadline, |e| (e.stream == Stream::Out && e.line.starts_with("bestmove")) || (e.stream == Stream::Err && uciproc::is_panic_line(&e.line)) || e.eof);
        let mut r = steps_json(&steps);
        r["transcript"] = json!(eng.transcript(30));
        let mv = match ev {
            Some(e) if e.stream == Stream::Out => e.line.split_whitespace().nth(1).unwrap_or("").to_string(),
            Some(e) if e.eof => return Err(Violation::new("one-bestmove", "one-bestmove/engine-exited/flow", format!("go #{} of a game flow ('{}' at {}): the engine closed its output", k + 1, st.go, st.fen_after), r)),
            Some(e) => {
                let site = e.line.rsplit("panicked at ").next().unwrap_or("").split(':').next().unwrap_or("").rsplit('/').next().unwrap_or("").to_string();
                eng.settle(Duration::from_millis(30));
                let what = eng.stderr_lines().iter().rev().take(3).map(|x| x.line.clone()).collect::<Vec<_>>().join(" | ");
                let mut r = steps_json(&steps);
                r["transcript"] = json!(eng.transcript(30));
                return Err(Violation::new("one-bestmove", &format!("one-bestmove/search-thread-panic/{site}/flow"), format!("go #{} of a game flow ('{}' at {}): the search thread panicked and no bestmove was sent ({what})", k + 1, st.go, st.fen_after), r));
            }
            None if eng.starved(cpu0, deadline) => {
                rep.class("timeout-while-engine-starved-of-cpu(flow abandoned; not a violation)");
                return Ok(());
            }
            None => return Err(Violation::new("in-time", "in-time/no-bestmove/flow", format!("go #{} of a game flow ('{}' at {}): no bestmove within {} ms", k + 1, st.go, st.fen_after, deadline.as_millis()), r)),
        };
        let Some(m) = game.cur.find_legal(&mv) else {
            return Err(Violation::new("legal", "legal/illegal-bestmove/flow", format!("go #{} of a game flow ('{}' at {}): bestmove {mv} is not legal", k + 1, st.go, st.fen_after), r));
        };
        rep.class("flow:go");
        if k > 0 {
            rep.nontrivial(o::hash_str(&format!("flow|{}|{}", st.fen_after, st.go)));
        }
        game.play(m);
        let legal = game.cur.legal_moves();
        if legal.is_empty() {
            break;
        }
        game.play(legal[pick16(replies.get(k).copied().unwrap_or(0), legal.len())]);
    }
    if !eng.ready(Duration::from_secs(3)) {
        let mut r = steps_json(&steps);
        r["transcript"] = json!(eng.transcript(30));
        return Err(Violation::new("accepts-next", "accepts-next/no-readyok/flow", "no readyok after a game flow".to_string(), r));
    }
    eng.send("quit");
    let _ = eng.wait_exit(Duration::from_secs(2));
    Ok(())
}

pub const SHARDS: usize = 8;

pub fn run(ctx: &Ctx) -> Report {
    if ctx.shard.is_none() {
        return run_sharded(ctx, SHARDS, SHARDS);
    }
    let mut rep = Report::new();
    let corp = corpus::load(&ctx.verif);
    // fixed regression sessions (the shapes of the defects found on the pinned tree)
    if ctx.shard_index() == 0 {
        let sp = Pos::startpos();
        for go in ["go nodes 1", "go depth 1", "go movetime 0", "go depth 3", "go btime 1000", "go wtime 0", "go wtime 1 winc 0 depth 200"] {
            let st = Step { pre: vec![], position: "position startpos".into(), go: go.into(), fen_after: sp.to_fen(), time_bound_ms: None, classes: vec!["regression"], nontrivial: true };
            match run_session(ctx, &[st], &mut rep) {
                Ok(()) => {}
                Err(v) => {
                    if let Some(k) = ctx.is_known(&v.sig) {
                        rep.known(&v.sig, &k.text);
                    } else {
                        rep.violation(v);
                    }
                }
            }
        }
    }
    // searches that run out of tree long before they run out of budget (all 255 iterations of a
    // tiny tree): the answer must still come by itself
    if ctx.shard_index() == 1 {
        for (fen, go) in [
            ("6k1/5ppp/8/8/8/8/8/R5K1 w - - 0 1", "go nodes 200000"),
            ("8/8/8/3k4/8/3K4/8/8 w - - 0 1", "go nodes 3000000"),
            ("8/8/8/3k4/8/3K4/8/8 w - - 0 1", "go depth 255"),
            ("6k1/5ppp/8/8/8/8/8/R5K1 w - - 0 1", "go depth 255 nodes 100000000"),
        ] {
            let st = Step { pre: vec![], position: format!("position fen {fen}"), go: go.into(), fen_after: fen.into(), time_bound_ms: None, classes: vec!["tiny-tree-large-budget"], nontrivial: true };
            let st2 = Step { pre: vec![], position: "position startpos".into(), go: "go depth 2".into(), fen_after: Pos::startpos().to_fen(), time_bound_ms: None, classes: vec!["regression"], nontrivial: true };
            match run_session(ctx, &[st, st2], &mut rep) {
                Ok(()) => {}
                Err(v) => {
                    if let Some(k) = ctx.is_known(&v.sig) {
                        rep.known(&v.sig, &k.text);
                    } else {
                        rep.violation(v);
                    }
                }
            }
        }
    }
    // the fifty-move horizon: sparse endings with the half-move clock at 80-99, searched to depth
    // 5-8 (or for a second with a deep limit): whatever the engine does about entries and draws
    // near the horizon, the answer must come
    let horizon = ctx.tier.pick(160, 3200) / ctx.shard_count() as u32;
    run_prop(ctx, "c09-fifty-horizon", horizon, 12, (gen::synth_strategy(), 0u8..6), &mut rep, |(ent, gsel), rep| {
        let mut e = Entropy::new(ent);
        let mut p = Pos::empty();
        let wk = e.pick(64);
        let c: Vec<usize> = (0..64).filter(|&s| (o::file_of(s) - o::file_of(wk)).abs().max((o::rank_of(s) - o::rank_of(wk)).abs()) > 1).collect();
        p.sq[wk] = o::mk(true, o::K);
        p.sq[c[e.pick(c.len())]] = o::mk(false, o::K);
        for _ in 0..1 + e.pick(3) {
            let t = [o::P, o::P, o::R, o::N, o::B, o::Q][e.pick(6)];
            let free: Vec<usize> = (0..64).filter(|&s| p.sq[s] == 0 && (t != o::P || (1..=6).contains(&o::rank_of(s)))).collect();
            p.sq[free[e.pick(free.len())]] = o::mk(e.pick(2) == 0, t);
        }
        p.wtm = e.pick(2) == 0;
        p.hmc = 80 + e.pick(20) as u32;
        p.fmn = 70 + e.pick(40) as u32;
        if p.is_valid_start().is_err() || p.legal_moves().is_empty() || p.legal_moves().len() > 30 {
            return Ok(());
        }
        let (go, bound): (String, Option<u64>) = match gsel {
            0 => ("go depth 5".into(), None),
            1 => ("go depth 6".into(), None),
            2 => ("go depth 7".into(), None),
            3 => ("go depth 12 movetime 1500".into(), Some(1500)),
            4 => ("go wtime 20000 btime 20000".into(), Some(1000)),
            _ => ("go depth 8 nodes 300000".into(), None),
        };
        let fen = p.to_fen();
        let st = Step { pre: vec![], position: format!("position fen {fen}"), go, fen_after: fen, time_bound_ms: bound, classes: vec!["fifty-move-horizon(clock 80-99)"], nontrivial: true };
        run_session(ctx, &[st], rep)
    });
    // self-play flow: 24-40 consecutive small searches along one game in ONE engine process
    let flows = ctx.tier.pick(16, 320) / ctx.shard_count() as u32;
    let fstrat = (gen::game_strategy(16), proptest::collection::vec(any::<u16>(), 40), 24usize..=40);
    run_prop(ctx, "c09-flow", flows, 12, fstrat, &mut rep, |(g, replies, gos), rep| {
        let mix = gen::StartMix { startpos: 5, corpus: 6, synth: 1, pattern: 2 };
        let Some((start, _)) = gen::start_pos(&g.start, &corp, mix) else { return Ok(()) };
        let mut game = Game::new(start);
        for &ch in &g.choices {
            let l = game.cur.legal_moves();
            if l.is_empty() {
                break;
            }
            game.play(gen::choose_move(&game, &l, g.weighted, ch));
        }
        rep.class("flow:session");
        flow_session(ctx, game, *gos, replies, rep)
    });
    let cases = ctx.tier.pick(400, 8000) / ctx.shard_count() as u32;
    run_prop(ctx, "c09", cases, 16, strategy(), &mut rep, |c, rep| {
        let steps = build_steps(c, &corp);
        if steps.is_empty() {
            return Ok(());
        }
        run_session(ctx, &steps, rep)
    });
    rep
}

pub fn replay(ctx: &Ctx, case: &Value) -> Report {
    let mut rep = Report::new();
    let steps: Vec<Step> = case["steps"]
        .as_array()
        .map(|a| {
            a.iter()
                .map(|s| Step {
                    pre: s["pre"].as_array().map(|a| a.iter().filter_map(|x| x.as_str().map(String::from)).collect()).unwrap_or_default(),
                    position: s["position"].as_str().unwrap_or("").to_string(),
                    go: s["go"].as_str().unwrap_or("").to_string(),
                    fen_after: s["fen_after"].as_str().unwrap_or("").to_string(),
                    time_bound_ms: s["time_bound_ms"].as_u64(),
                    classes: vec!["replay"],
                    nontrivial: true,
                })
                .collect()
        })
        .unwrap_or_default();
    if let Err(v) = run_session(ctx, &steps, &mut rep) {
        rep.violation(v);
    }
    rep
}

pub const LEVEL: &str = "exploration";
pub const RULE: &str = "[also: sparse endings with the half-move clock at 80-99 searched to depth 5-8, a second of movetime or on the game clock] UCI sessions against the real engine binary: 1..5 consecutive (position, go) pairs (every third one continues the previous pair's game by 1..3 plies, so its root lies inside the tree the previous go cached), each optionally preceded by idle commands (stop, isready, ucinewgame, setoption, uci); positions with >= 1 legal move from startpos / corpus / synthesised / pattern starts (in-check and near-stalemate positions included) plus up to 30 plies of play, and - only under a time-bounded go - capture-saturated constructions (5-9 queens a side); limits = any subset of {depth 1..255, nodes 1..200000 log-spaced, movetime 0..400 ms, wtime/btime 0..60000 ms, winc/binc 0..100 ms}, with depth <= 5 when nothing else bounds the work. Plus self-play flows: 24-40 consecutive small searches (depth 2-4 / nodes 3000-20000 / movetime 20) along one game in ONE engine process (the engine's answer, a generated reply, go again), and tiny trees under huge budgets (mate in one / bare kings with 'go nodes 200000..3000000' and 'go depth 255'). Oracle per go: exactly one bestmove line, legal per the rules oracle, arriving before min(movetime, own clock + increment) + 3 s (60 s when only depth/nodes bound the search); a search-thread panic on stderr settles 'no bestmove' at once; then isready -> readyok within 3 s; bestmove count == go count at session end. Non-trivial = a limit can cut the first iteration (nodes <= 2000, time bound <= 20 ms, depth <= 2, only the opponent's clock), or the position is in check or has <= 3 legal moves, or it is the 2nd+ go of a session; distinct by (position, go command).";
pub const ASSUMPTIONS: &[&str] = &[
    "the rules oracle decides legality of the answer",
    "deadlines are generous stand-ins for 'in time' (limit + 3 s); a harness-side spawn failure or a missing first readyok is reported as inconclusive (exit 2), never as a violation",
    "8 engine processes run concurrently on 16 cores",
];
