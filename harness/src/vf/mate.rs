//! Exhaustive short-mate analysis on the oracle (C12's classifier).

use super::oracle::{Mv, Pos};

pub fn mates(p: &Pos, m: Mv) -> bool {
    p.make(m).is_mate()
}

pub fn mate_in_1_moves(p: &Pos) -> Vec<Mv> {
    p.legal_moves().into_iter().filter(|&m| mates(p, m)).collect()
}

pub fn has_mate_in_1(p: &Pos) -> bool {
    p.legal_moves().into_iter().any(|m| mates(p, m))
}

/// After `m`, does every reply allow a mate in one (and is there at least one reply)?
pub fn forces_mate_in_2(p: &Pos, m: Mv) -> bool {
    let n = p.make(m);
    let replies = n.legal_moves();
    if replies.is_empty() {
        return false; // mate at once or stalemate: not a mate *in two*
    }
    replies.iter().all(|&r| has_mate_in_1(&n.make(r)))
}

pub fn mate_in_2_moves(p: &Pos) -> Vec<Mv> {
    p.legal_moves().into_iter().filter(|&m| forces_mate_in_2(p, m)).collect()
}

/// Does `m` allow the opponent a mate in one?
pub fn allows_mate_in_1(p: &Pos, m: Mv) -> bool {
    has_mate_in_1(&p.make(m))
}

#[derive(Clone, Copy, Debug, PartialEq, Eq)]
pub enum Class {
    M1,
    M2,
    /// some legal move allows a mate in one and some does not
    Threat,
    None,
}

pub struct Analysis {
    pub class: Class,
    pub m1: Vec<Mv>,
    pub m2: Vec<Mv>,
    pub unsafe_moves: Vec<Mv>,
    pub safe_exists: bool,
}

pub fn analyse(p: &Pos) -> Analysis {
    let legal = p.legal_moves();
    let m1 = mate_in_1_moves(p);
    let m2 = if m1.is_empty() { mate_in_2_moves(p) } else { vec![] };
    let unsafe_moves: Vec<Mv> = legal.iter().copied().filter(|&m| allows_mate_in_1(p, m)).collect();
    let safe_exists = unsafe_moves.len() < legal.len();
    let class = if !m1.is_empty() {
        Class::M1
    } else if !m2.is_empty() {
        Class::M2
    } else if !unsafe_moves.is_empty() && safe_exists {
        Class::Threat
    } else {
        Class::None
    };
    Analysis { class, m1, m2, unsafe_moves, safe_exists }
}
