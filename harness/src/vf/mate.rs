//! Exhaustive short-mate analysis on the oracle (C12's classifier).

use super::oracle::{Mv, Pos};

pub fn mates(p: &Pos, m: Mv) -> bool {
    p.make(m).is_mate()
}

pub fn mate_in_1_moves(p: &Pos) -> Vec<Mv> {
    p.legal_moves().into_iter().filter(|&m| mates(p, m)).collect()
}

pub fn has_mate_in_1(p: &Pos) -> bool {
    p.legal_moves().into_iter().any(|m| mates(p, m))
}

/// After `m`, does every reply allow a mate in one (and is there at least one reply)?
pub fn forces_mate_in_2(p: &Pos, m: Mv) -> bool {
    let n = p.make(m);
    let replies = n.legal_moves();
    if replies.is_empty() {
        return false; // mate at once or stalemate: not a mate *in two*
    }
    replies.iter().all(|&r| has_mate_in_1(&n.make(r)))
}

pub fn mate_in_2_moves(p: &Pos) -> Vec<Mv> {
    p.legal_moves().into_iter().filter(|&m| forces_mate_in_2(p, m)).collect()
}

/// Does `m` allow the opponent a mate in one?
pub fn allows_mate_in_1(p: &Pos, m: Mv) -> bool {
    has_mate_in_1(&p.make(m))
}

#[derive(Clone, Copy, Debug, PartialEq, Eq)]
pub enum Class {
    M1,
    M2,
    /// some legal move allows a mate in one and some does not
    Threat,
    None,
}

pub struct Analysis {
    pub class: Class,
    pub m1: Vec<Mv>,
    pub m2: Vec<Mv>,
    pub unsafe_moves: Vec<Mv>,
    pub safe_exists: bool,
}

pub fn analyse(p: &Pos) -> Analysis {
    let legal = p.legal_moves();
    let m1 = mate_in_1_moves(p);
    let m2 = if m1.is_empty() { mate_in_2_moves(p) } else { vec![] };
    let unsafe_moves: Vec<Mv> = legal.iter().copied().filter(|&m| allows_mate_in_1(p, m)).collect();
    let safe_exists = unsafe_moves.len() < legal.len();
    let class = if !m1.is_empty() {
        Class::M1
    } else if !m2.is_empty() {
        Class::M2
    } else if !unsafe_moves.is_empty() && safe_exists {
        Class::Threat
    } else {
        Class::None
    };
    Analysis { class, m1, m2, unsafe_moves, safe_exists }
}

/// Can the side to move force mate within `n` of its own moves?  AND/OR search with a node
/// budget; `None` = budget exhausted (unknown).
pub fn can_force_mate(p: &Pos, n: u32, budget: &mut i64) -> Option<bool> {
    *budget -= 1;
    if *budget < 0 {
        return None;
    }
    if n == 0 {
        return Some(false);
    }
    let legal = p.legal_moves();
    let children: Vec<Pos> = legal.iter().map(|&m| p.make(m)).collect();
    let replies: Vec<Vec<super::oracle::Mv>> = children.iter().map(|c| c.legal_moves()).collect();
    for (c, r) in children.iter().zip(replies.iter()) {
        if r.is_empty() && c.in_check(c.wtm) {
            return Some(true);
        }
    }
    if n == 1 {
        return Some(false);
    }
    for (c, r) in children.iter().zip(replies.iter()) {
        if r.is_empty() {
            continue; // stalemate
        }
        let mut all = true;
        for &rm in r {
            match can_force_mate(&c.make(rm), n - 1, budget) {
                Some(true) => {}
                Some(false) => {
                    all = false;
                    break;
                }
                None => return None,
            }
        }
        if all {
            return Some(true);
        }
    }
    Some(false)
}

/// No sequence of legal moves can mate: bare kings, or king + one minor piece v king.
pub fn dead_position(p: &Pos) -> bool {
    use super::oracle as o;
    let mut minors = 0;
    for &c in p.sq.iter() {
        match o::pt(c) {
            0 | o::K => {}
            o::B | o::N => minors += 1,
            _ => return false,
        }
    }
    minors <= 1
}

#[derive(Clone, Copy, Debug, PartialEq, Eq)]
pub enum Kept {
    /// mates at once or every reply leaves a mate in one
    MateInTwo,
    /// a longer forced mate is proven (within the bound)
    LongerProven,
    /// provably no forced mate any more: stalemate, a reply reaches a dead position, or the
    /// opponent has a forced mate in two himself
    Lost,
    Unknown,
}

/// After the mover's move `m` at `p` (where a forced mate in two existed): is a forced
/// mate kept?  Only `Lost` is a proven violation; `Unknown` is inconclusive.
pub fn keeps_forced_mate(p: &Pos, m: super::oracle::Mv, more_moves: u32, budget: &mut i64) -> Kept {
    if mates(p, m) || forces_mate_in_2(p, m) {
        return Kept::MateInTwo;
    }
    let q = p.make(m);
    let replies = q.legal_moves();
    if replies.is_empty() {
        return Kept::Lost; // stalemate (mate was handled above)
    }
    if replies.iter().any(|&r| dead_position(&q.make(r))) {
        return Kept::Lost;
    }
    // the opponent now mates by force (within two of its own moves, whatever the mover does,
    // including any mating attempt of the mover): then the mover has no forced mate left
    {
        let mut b2 = 60_000i64;
        if can_force_mate(&q, 2, &mut b2) == Some(true) {
            return Kept::Lost;
        }
    }
    let mut all = true;
    for &r in &replies {
        match can_force_mate(&q.make(r), more_moves, budget) {
            Some(true) => {}
            Some(false) => {
                all = false;
            }
            None => return Kept::Unknown,
        }
    }
    if all {
        Kept::LongerProven
    } else {
        Kept::Unknown
    }
}
