//! Independent rules-of-chess oracle (trusted base of C01-C05, C07-C09, C11, C12, C14).
//!
//! Deliberately simple: 8x8 mailbox, copy-make, pseudo-legal generation by coordinate
//! stepping with explicit bounds tests, legality by "is my king's square attacked",
//! computed from the king outwards.  Shares no code and no tables with the engine.

use std::fmt;

pub const P: u8 = 1;
pub const N: u8 = 2;
pub const B: u8 = 3;
pub const R: u8 = 4;
pub const Q: u8 = 5;
pub const K: u8 = 6;
pub const BLACK: u8 = 8;

#[inline]
pub fn pt(code: u8) -> u8 {
    code & 7
}
#[inline]
pub fn is_white(code: u8) -> bool {
    code != 0 && code & BLACK == 0
}
#[inline]
pub fn is_black(code: u8) -> bool {
    code & BLACK != 0
}
#[inline]
pub fn mk(white: bool, t: u8) -> u8 {
    if white {
        t
    } else {
        t | BLACK
    }
}
#[inline]
pub fn sq(file: i32, rank: i32) -> usize {
    (rank * 8 + file) as usize
}
#[inline]
pub fn file_of(s: usize) -> i32 {
    (s % 8) as i32
}
#[inline]
pub fn rank_of(s: usize) -> i32 {
    (s / 8) as i32
}
pub fn sq_name(s: usize) -> String {
    format!("{}{}", (b'a' + (s % 8) as u8) as char, (b'1' + (s / 8) as u8) as char)
}
pub fn parse_sq(s: &str) -> Option<usize> {
    let b = s.as_bytes();
    if b.len() != 2 || !(b'a'..=b'h').contains(&b[0]) || !(b'1'..=b'8').contains(&b[1]) {
        return None;
    }
    Some(((b[1] - b'1') as usize) * 8 + (b[0] - b'a') as usize)
}
pub fn piece_char(code: u8) -> char {
    let c = match pt(code) {
        P => 'p',
        N => 'n',
        B => 'b',
        R => 'r',
        Q => 'q',
        K => 'k',
        _ => '?',
    };
    if is_white(code) {
        c.to_ascii_uppercase()
    } else {
        c
    }
}
pub fn char_piece(c: char) -> Option<u8> {
    let t = match c.to_ascii_lowercase() {
        'p' => P,
        'n' => N,
        'b' => B,
        'r' => R,
        'q' => Q,
        'k' => K,
        _ => return None,
    };
    Some(mk(c.is_ascii_uppercase(), t))
}

pub const F_CAPTURE: u8 = 1;
pub const F_EP: u8 = 2;
pub const F_CASTLE: u8 = 4;
pub const F_DOUBLE: u8 = 8;

#[derive(Clone, Copy, PartialEq, Eq, Hash, Debug, PartialOrd, Ord)]
pub struct Mv {
    pub from: u8,
    pub to: u8,
    /// promotion piece type (N,B,R,Q) or 0
    pub promo: u8,
    pub flags: u8,
}

impl Mv {
    pub fn uci(&self) -> String {
        let mut s = format!("{}{}", sq_name(self.from as usize), sq_name(self.to as usize));
        match self.promo {
            N => s.push('n'),
            B => s.push('b'),
            R => s.push('r'),
            Q => s.push('q'),
            _ => {}
        }
        s
    }
    pub fn is_capture(&self) -> bool {
        self.flags & F_CAPTURE != 0
    }
    pub fn is_ep(&self) -> bool {
        self.flags & F_EP != 0
    }
    pub fn is_castle(&self) -> bool {
        self.flags & F_CASTLE != 0
    }
    pub fn is_double(&self) -> bool {
        self.flags & F_DOUBLE != 0
    }
    pub fn is_promo(&self) -> bool {
        self.promo != 0
    }
}
impl fmt::Display for Mv {
    fn fmt(&self, f: &mut fmt::Formatter) -> fmt::Result {
        write!(f, "{}", self.uci())
    }
}

/// Identity of a position for repetition / hashing purposes:
/// placement, side to move, castling rights, e.p. file (engine convention: the
/// file is present on the ply after *every* double pawn push).
#[derive(Clone, Copy, PartialEq, Eq, Hash, Debug, PartialOrd, Ord)]
pub struct PosId(pub [u8; 34]);

impl PosId {
    pub fn fp128(&self) -> u128 {
        let a = hash_bytes(&self.0, 0x9E37_79B9_7F4A_7C15);
        let b = hash_bytes(&self.0, 0xC2B2_AE3D_27D4_EB4F);
        ((a as u128) << 64) | b as u128
    }
    pub fn fp64(&self) -> u64 {
        hash_bytes(&self.0, 0x9E37_79B9_7F4A_7C15)
    }
}

pub fn hash_bytes(bytes: &[u8], seed: u64) -> u64 {
    let mut h = seed ^ 0x51_7C_C1_B7_27_22_0A_95;
    for &b in bytes {
        h ^= b as u64;
        h = h.wrapping_mul(0x0000_0100_0000_01B3);
        h ^= h >> 29;
        h = h.wrapping_mul(0xBF58_476D_1CE4_E5B9);
        h ^= h >> 32;
    }
    h
}
pub fn hash_str(s: &str) -> u64 {
    hash_bytes(s.as_bytes(), 0x1234_5678_9ABC_DEF1)
}

#[derive(Clone, PartialEq, Eq, Debug)]
pub struct Pos {
    pub sq: [u8; 64],
    pub wtm: bool,
    /// K Q k q
    pub cr: [bool; 4],
    pub ep: Option<u8>,
    pub hmc: u32,
    pub fmn: u32,
}

const KNIGHT_D: [(i32, i32); 8] = [(1, 2), (2, 1), (2, -1), (1, -2), (-1, -2), (-2, -1), (-2, 1), (-1, 2)];
const KING_D: [(i32, i32); 8] = [(1, 0), (1, 1), (0, 1), (-1, 1), (-1, 0), (-1, -1), (0, -1), (1, -1)];
const ROOK_D: [(i32, i32); 4] = [(1, 0), (0, 1), (-1, 0), (0, -1)];
const BISHOP_D: [(i32, i32); 4] = [(1, 1), (-1, 1), (-1, -1), (1, -1)];

#[inline]
fn on(f: i32, r: i32) -> bool {
    (0..8).contains(&f) && (0..8).contains(&r)
}

impl Pos {
    pub fn startpos() -> Pos {
        Pos::from_fen("rnbqkbnr/pppppppp/8/8/8/8/PPPPPPPP/RNBQKBNR w KQkq - 0 1").unwrap()
    }

    pub fn empty() -> Pos {
        Pos { sq: [0; 64], wtm: true, cr: [false; 4], ep: None, hmc: 0, fmn: 1 }
    }

    /// Own FEN reader (also the oracle of C07). Accepts 4- and 6-field strings.
    pub fn from_fen(fen: &str) -> Result<Pos, String> {
        let f: Vec<&str> = fen.split_whitespace().collect();
        if f.len() != 4 && f.len() != 6 {
            return Err(format!("expected 4 or 6 fields, got {}", f.len()));
        }
        let mut p = Pos::empty();
        let ranks: Vec<&str> = f[0].split('/').collect();
        if ranks.len() != 8 {
            return Err("placement must have 8 ranks".into());
        }
        for (i, rk) in ranks.iter().enumerate() {
            let rank = 7 - i as i32;
            let mut file = 0i32;
            for c in rk.chars() {
                if let Some(d) = c.to_digit(10) {
                    if !(1..=8).contains(&d) {
                        return Err("bad digit".into());
                    }
                    file += d as i32;
                } else {
                    let code = char_piece(c).ok_or_else(|| format!("bad piece char {c}"))?;
                    if file > 7 {
                        return Err("rank too long".into());
                    }
                    p.sq[sq(file, rank)] = code;
                    file += 1;
                }
            }
            if file != 8 {
                return Err(format!("rank {} has {} files", rank + 1, file));
            }
        }
        p.wtm = match f[1] {
            "w" => true,
            "b" => false,
            _ => return Err("bad side to move".into()),
        };
        if f[2] != "-" {
            for c in f[2].chars() {
                match c {
                    'K' => p.cr[0] = true,
                    'Q' => p.cr[1] = true,
                    'k' => p.cr[2] = true,
                    'q' => p.cr[3] = true,
                    _ => return Err("bad castling field".into()),
                }
            }
        }
        if f[3] != "-" {
            let s = parse_sq(f[3]).ok_or("bad e.p. square")?;
            p.ep = Some(file_of(s) as u8);
        }
        if f.len() == 6 {
            p.hmc = f[4].parse().map_err(|_| "bad halfmove clock")?;
            p.fmn = f[5].parse().map_err(|_| "bad fullmove number")?;
        } else {
            p.hmc = 0;
            p.fmn = 1;
        }
        Ok(p)
    }

    pub fn placement_fen(&self) -> String {
        let mut s = String::new();
        for rank in (0..8).rev() {
            let mut empty = 0;
            for file in 0..8 {
                let c = self.sq[sq(file, rank)];
                if c == 0 {
                    empty += 1;
                } else {
                    if empty > 0 {
                        s.push_str(&empty.to_string());
                        empty = 0;
                    }
                    s.push(piece_char(c));
                }
            }
            if empty > 0 {
                s.push_str(&empty.to_string());
            }
            if rank > 0 {
                s.push('/');
            }
        }
        s
    }

    fn fen4(&self) -> String {
        let mut cr = String::new();
        for (i, c) in ['K', 'Q', 'k', 'q'].iter().enumerate() {
            if self.cr[i] {
                cr.push(*c);
            }
        }
        if cr.is_empty() {
            cr.push('-');
        }
        let ep = match self.ep {
            Some(f) => format!("{}{}", (b'a' + f) as char, if self.wtm { '6' } else { '3' }),
            None => "-".to_string(),
        };
        format!("{} {} {} {}", self.placement_fen(), if self.wtm { 'w' } else { 'b' }, cr, ep)
    }

    pub fn to_fen(&self) -> String {
        format!("{} {} {}", self.fen4(), self.hmc, self.fmn)
    }
    pub fn to_fen4(&self) -> String {
        self.fen4()
    }

    pub fn pos_id(&self) -> PosId {
        let mut b = [0u8; 34];
        for i in 0..32 {
            b[i] = self.sq[2 * i] | (self.sq[2 * i + 1] << 4);
        }
        b[32] = (self.wtm as u8)
            | (self.cr[0] as u8) << 1
            | (self.cr[1] as u8) << 2
            | (self.cr[2] as u8) << 3
            | (self.cr[3] as u8) << 4;
        b[33] = match self.ep {
            Some(f) => f + 1,
            None => 0,
        };
        PosId(b)
    }

    pub fn king_sq(&self, white: bool) -> Option<usize> {
        let k = mk(white, K);
        (0..64).find(|&s| self.sq[s] == k)
    }

    /// Is square `s` attacked by a piece of colour `by_white`?  Computed from the
    /// square outwards.
    pub fn attacked(&self, s: usize, by_white: bool) -> bool {
        let f = file_of(s);
        let r = rank_of(s);
        // knights
        for (df, dr) in KNIGHT_D {
            let (nf, nr) = (f + df, r + dr);
            if on(nf, nr) && self.sq[sq(nf, nr)] == mk(by_white, N) {
                return true;
            }
        }
        // king
        for (df, dr) in KING_D {
            let (nf, nr) = (f + df, r + dr);
            if on(nf, nr) && self.sq[sq(nf, nr)] == mk(by_white, K) {
                return true;
            }
        }
        // pawns: a white pawn on (f±1, r-1) attacks (f, r)
        let pr = if by_white { r - 1 } else { r + 1 };
        for df in [-1, 1] {
            let nf = f + df;
            if on(nf, pr) && self.sq[sq(nf, pr)] == mk(by_white, P) {
                return true;
            }
        }
        // sliders
        for (df, dr) in ROOK_D {
            let (mut nf, mut nr) = (f + df, r + dr);
            while on(nf, nr) {
                let c = self.sq[sq(nf, nr)];
                if c != 0 {
                    if c == mk(by_white, R) || c == mk(by_white, Q) {
                        return true;
                    }
                    break;
                }
                nf += df;
                nr += dr;
            }
        }
        for (df, dr) in BISHOP_D {
            let (mut nf, mut nr) = (f + df, r + dr);
            while on(nf, nr) {
                let c = self.sq[sq(nf, nr)];
                if c != 0 {
                    if c == mk(by_white, B) || c == mk(by_white, Q) {
                        return true;
                    }
                    break;
                }
                nf += df;
                nr += dr;
            }
        }
        false
    }

    /// Number of pieces of colour `by_white` giving check to the other king's square `s`
    /// (used only for classification).
    pub fn attackers_count(&self, s: usize, by_white: bool) -> u32 {
        let mut n = 0;
        let f = file_of(s);
        let r = rank_of(s);
        for (df, dr) in KNIGHT_D {
            let (nf, nr) = (f + df, r + dr);
            if on(nf, nr) && self.sq[sq(nf, nr)] == mk(by_white, N) {
                n += 1;
            }
        }
        let pr = if by_white { r - 1 } else { r + 1 };
        for df in [-1, 1] {
            let nf = f + df;
            if on(nf, pr) && self.sq[sq(nf, pr)] == mk(by_white, P) {
                n += 1;
            }
        }
        for (dirs, a, b) in [(ROOK_D, R, Q), (BISHOP_D, B, Q)] {
            for (df, dr) in dirs {
                let (mut nf, mut nr) = (f + df, r + dr);
                while on(nf, nr) {
                    let c = self.sq[sq(nf, nr)];
                    if c != 0 {
                        if c == mk(by_white, a) || c == mk(by_white, b) {
                            n += 1;
                        }
                        break;
                    }
                    nf += df;
                    nr += dr;
                }
            }
        }
        n
    }

    pub fn in_check(&self, white: bool) -> bool {
        match self.king_sq(white) {
            Some(k) => self.attacked(k, !white),
            None => false,
        }
    }

    pub fn pseudo_moves(&self) -> Vec<Mv> {
        let mut out = Vec::with_capacity(48);
        let w = self.wtm;
        for s in 0..64usize {
            let c = self.sq[s];
            if c == 0 || is_white(c) != w {
                continue;
            }
            let f = file_of(s);
            let r = rank_of(s);
            match pt(c) {
                P => self.pawn_moves(s, &mut out),
                N => {
                    for (df, dr) in KNIGHT_D {
                        self.step(s, f + df, r + dr, &mut out);
                    }
                }
                K => {
                    for (df, dr) in KING_D {
                        self.step(s, f + df, r + dr, &mut out);
                    }
                    self.castle_moves(s, &mut out);
                }
                B => self.slide(s, &BISHOP_D, &mut out),
                R => self.slide(s, &ROOK_D, &mut out),
                Q => {
                    self.slide(s, &BISHOP_D, &mut out);
                    self.slide(s, &ROOK_D, &mut out);
                }
                _ => {}
            }
        }
        out
    }

    fn step(&self, from: usize, nf: i32, nr: i32, out: &mut Vec<Mv>) {
        if !on(nf, nr) {
            return;
        }
        let t = sq(nf, nr);
        let c = self.sq[t];
        if c == 0 {
            out.push(Mv { from: from as u8, to: t as u8, promo: 0, flags: 0 });
        } else if is_white(c) != self.wtm {
            out.push(Mv { from: from as u8, to: t as u8, promo: 0, flags: F_CAPTURE });
        }
    }

    fn slide(&self, from: usize, dirs: &[(i32, i32)], out: &mut Vec<Mv>) {
        let f = file_of(from);
        let r = rank_of(from);
        for &(df, dr) in dirs {
            let (mut nf, mut nr) = (f + df, r + dr);
            while on(nf, nr) {
                let t = sq(nf, nr);
                let c = self.sq[t];
                if c == 0 {
                    out.push(Mv { from: from as u8, to: t as u8, promo: 0, flags: 0 });
                } else {
                    if is_white(c) != self.wtm {
                        out.push(Mv { from: from as u8, to: t as u8, promo: 0, flags: F_CAPTURE });
                    }
                    break;
                }
                nf += df;
                nr += dr;
            }
        }
    }

    fn push_pawn(&self, from: usize, to: usize, flags: u8, out: &mut Vec<Mv>) {
        let last = if self.wtm { 7 } else { 0 };
        if rank_of(to) == last {
            for promo in [Q, R, B, N] {
                out.push(Mv { from: from as u8, to: to as u8, promo, flags });
            }
        } else {
            out.push(Mv { from: from as u8, to: to as u8, promo: 0, flags });
        }
    }

    fn pawn_moves(&self, s: usize, out: &mut Vec<Mv>) {
        let w = self.wtm;
        let f = file_of(s);
        let r = rank_of(s);
        let dir = if w { 1 } else { -1 };
        let home = if w { 1 } else { 6 };
        let nr = r + dir;
        if !on(f, nr) {
            return; // pawn on the last rank: not a legal position, nothing to do
        }
        if self.sq[sq(f, nr)] == 0 {
            self.push_pawn(s, sq(f, nr), 0, out);
            if r == home && self.sq[sq(f, r + 2 * dir)] == 0 {
                out.push(Mv { from: s as u8, to: sq(f, r + 2 * dir) as u8, promo: 0, flags: F_DOUBLE });
            }
        }
        for df in [-1, 1] {
            let nf = f + df;
            if !on(nf, nr) {
                continue;
            }
            let t = sq(nf, nr);
            let c = self.sq[t];
            if c != 0 && is_white(c) != w {
                self.push_pawn(s, t, F_CAPTURE, out);
            }
        }
        // en passant
        if let Some(ef) = self.ep {
            let ep_rank = if w { 4 } else { 3 };
            let ef = ef as i32;
            if r == ep_rank && (ef - f).abs() == 1 {
                let victim = sq(ef, r);
                let target = sq(ef, nr);
                if self.sq[victim] == mk(!w, P) && self.sq[target] == 0 {
                    out.push(Mv { from: s as u8, to: target as u8, promo: 0, flags: F_CAPTURE | F_EP });
                }
            }
        }
    }

    fn castle_moves(&self, s: usize, out: &mut Vec<Mv>) {
        let w = self.wtm;
        let home = if w { 4 } else { 60 };
        if s != home {
            return;
        }
        let base = if w { 0 } else { 56 };
        let (ks, qs) = if w { (self.cr[0], self.cr[1]) } else { (self.cr[2], self.cr[3]) };
        let rook = mk(w, R);
        if ks
            && self.sq[base + 7] == rook
            && self.sq[base + 5] == 0
            && self.sq[base + 6] == 0
            && !self.attacked(base + 4, !w)
            && !self.attacked(base + 5, !w)
            && !self.attacked(base + 6, !w)
        {
            out.push(Mv { from: s as u8, to: (base + 6) as u8, promo: 0, flags: F_CASTLE });
        }
        if qs
            && self.sq[base] == rook
            && self.sq[base + 1] == 0
            && self.sq[base + 2] == 0
            && self.sq[base + 3] == 0
            && !self.attacked(base + 4, !w)
            && !self.attacked(base + 3, !w)
            && !self.attacked(base + 2, !w)
        {
            out.push(Mv { from: s as u8, to: (base + 2) as u8, promo: 0, flags: F_CASTLE });
        }
    }

    /// Would castling be available but for attacked squares (classification only)?
    pub fn castle_denied_by_attack(&self) -> (bool, bool) {
        let w = self.wtm;
        let base = if w { 0 } else { 56 };
        if self.sq[base + 4] != mk(w, K) {
            return (false, false);
        }
        let (ks, qs) = if w { (self.cr[0], self.cr[1]) } else { (self.cr[2], self.cr[3]) };
        let rook = mk(w, R);
        let mut denied = false;
        let mut b_file_attacked_ok = false;
        if ks && self.sq[base + 7] == rook && self.sq[base + 5] == 0 && self.sq[base + 6] == 0 {
            if self.attacked(base + 4, !w) || self.attacked(base + 5, !w) || self.attacked(base + 6, !w) {
                denied = true;
            }
        }
        if qs && self.sq[base] == rook && self.sq[base + 1] == 0 && self.sq[base + 2] == 0 && self.sq[base + 3] == 0 {
            if self.attacked(base + 4, !w) || self.attacked(base + 3, !w) || self.attacked(base + 2, !w) {
                denied = true;
            } else if self.attacked(base + 1, !w) {
                b_file_attacked_ok = true;
            }
        }
        (denied, b_file_attacked_ok)
    }

    /// Apply a (pseudo-)legal move produced by this oracle; returns the successor.
    pub fn make(&self, m: Mv) -> Pos {
        let mut n = self.clone();
        let from = m.from as usize;
        let to = m.to as usize;
        let piece = self.sq[from];
        let w = self.wtm;
        let captured = if m.is_ep() { mk(!w, P) } else { self.sq[to] };
        n.sq[from] = 0;
        if m.is_ep() {
            let victim = sq(file_of(to), rank_of(from));
            n.sq[victim] = 0;
        }
        n.sq[to] = if m.promo != 0 { mk(w, m.promo) } else { piece };
        if m.is_castle() {
            let base = if w { 0 } else { 56 };
            if file_of(to) == 6 {
                n.sq[base + 7] = 0;
                n.sq[base + 5] = mk(w, R);
            } else {
                n.sq[base] = 0;
                n.sq[base + 3] = mk(w, R);
            }
        }
        // castling rights: lost when king or that rook moves, or that rook is captured
        if pt(piece) == K {
            if w {
                n.cr[0] = false;
                n.cr[1] = false;
            } else {
                n.cr[2] = false;
                n.cr[3] = false;
            }
        }
        for s in [from, to] {
            match s {
                0 => n.cr[1] = false,
                7 => n.cr[0] = false,
                56 => n.cr[3] = false,
                63 => n.cr[2] = false,
                _ => {}
            }
        }
        // (a move from/to a corner square changes a right only if it was still present,
        //  in which case the rook was still at home: moving it or capturing it loses it)
        n.ep = if m.is_double() { Some(file_of(to) as u8) } else { None };
        n.hmc = if pt(piece) == P || captured != 0 { 0 } else { self.hmc + 1 };
        if !w {
            n.fmn += 1;
        }
        n.wtm = !w;
        n
    }

    pub fn legal_moves(&self) -> Vec<Mv> {
        let w = self.wtm;
        let mut v: Vec<Mv> = self
            .pseudo_moves()
            .into_iter()
            .filter(|&m| {
                let n = self.make(m);
                !n.in_check(w)
            })
            .collect();
        v.sort();
        v
    }

    pub fn find_legal(&self, uci: &str) -> Option<Mv> {
        self.legal_moves().into_iter().find(|m| m.uci() == uci)
    }

    pub fn is_mate(&self) -> bool {
        self.in_check(self.wtm) && self.legal_moves().is_empty()
    }
    pub fn is_stalemate(&self) -> bool {
        !self.in_check(self.wtm) && self.legal_moves().is_empty()
    }

    /// Colour mirror: ranks flipped, colours swapped, side to move swapped.
    pub fn mirror(&self) -> Pos {
        let mut n = Pos::empty();
        for s in 0..64 {
            let c = self.sq[s];
            if c != 0 {
                let t = sq(file_of(s), 7 - rank_of(s));
                n.sq[t] = c ^ BLACK;
            }
        }
        n.wtm = !self.wtm;
        n.cr = [self.cr[2], self.cr[3], self.cr[0], self.cr[1]];
        n.ep = self.ep;
        n.hmc = self.hmc;
        n.fmn = self.fmn;
        n
    }

    /// Structural sanity of a position used as a *start*: one king each, no pawns on
    /// ranks 1/8, side not to move not in check, castling flags consistent with king/rook
    /// placement, e.p. file consistent with a double push just made.
    pub fn is_valid_start(&self) -> Result<(), String> {
        let wk = self.sq.iter().filter(|&&c| c == mk(true, K)).count();
        let bk = self.sq.iter().filter(|&&c| c == mk(false, K)).count();
        if wk != 1 || bk != 1 {
            return Err("king count".into());
        }
        for f in 0..8 {
            if pt(self.sq[sq(f, 0)]) == P || pt(self.sq[sq(f, 7)]) == P {
                return Err("pawn on back rank".into());
            }
        }
        if self.in_check(!self.wtm) {
            return Err("side not to move in check".into());
        }
        let wkh = self.sq[4] == mk(true, K);
        let bkh = self.sq[60] == mk(false, K);
        if self.cr[0] && !(wkh && self.sq[7] == mk(true, R)) {
            return Err("K flag inconsistent".into());
        }
        if self.cr[1] && !(wkh && self.sq[0] == mk(true, R)) {
            return Err("Q flag inconsistent".into());
        }
        if self.cr[2] && !(bkh && self.sq[63] == mk(false, R)) {
            return Err("k flag inconsistent".into());
        }
        if self.cr[3] && !(bkh && self.sq[56] == mk(false, R)) {
            return Err("q flag inconsistent".into());
        }
        if let Some(f) = self.ep {
            let f = f as i32;
            // the side that just moved is !wtm; its pawn stands on its 4th rank
            let (pr, behind1, behind2) = if self.wtm { (4, 5, 6) } else { (3, 2, 1) };
            if self.sq[sq(f, pr)] != mk(!self.wtm, P) || self.sq[sq(f, behind1)] != 0 || self.sq[sq(f, behind2)] != 0 {
                return Err("e.p. file inconsistent".into());
            }
        }
        Ok(())
    }

    pub fn material_count(&self) -> usize {
        self.sq.iter().filter(|&&c| c != 0).count()
    }
}

/// A game: start position, moves, and the identities of all earlier positions.
#[derive(Clone, Debug)]
pub struct Game {
    pub start: Pos,
    pub moves: Vec<Mv>,
    pub cur: Pos,
    /// ids of the positions *before* `cur`, in order (start first)
    pub earlier: Vec<PosId>,
}

impl Game {
    pub fn new(start: Pos) -> Game {
        Game { cur: start.clone(), start, moves: vec![], earlier: vec![] }
    }
    pub fn play(&mut self, m: Mv) {
        self.earlier.push(self.cur.pos_id());
        self.cur = self.cur.make(m);
        self.moves.push(m);
    }
    pub fn undo(&mut self) {
        self.moves.pop();
        self.earlier.pop();
        let mut p = self.start.clone();
        for m in &self.moves {
            p = p.make(*m);
        }
        self.cur = p;
    }
    pub fn cur_repeats_earlier(&self) -> bool {
        let id = self.cur.pos_id();
        self.earlier.contains(&id)
    }
    pub fn moves_uci(&self) -> Vec<String> {
        self.moves.iter().map(|m| m.uci()).collect()
    }
}

pub fn perft(p: &Pos, depth: u32) -> u64 {
    if depth == 0 {
        return 1;
    }
    let ms = p.legal_moves();
    if depth == 1 {
        return ms.len() as u64;
    }
    ms.iter().map(|&m| perft(&p.make(m), depth - 1)).sum()
}

/// Self-validation of the oracle against published perft values.  `deep` adds the
/// expensive depths (setup); the shallow form runs at the start of every check.
pub fn self_test(deep: bool) -> Result<(), String> {
    let cases: &[(&str, &[u64], usize)] = &[
        ("rnbqkbnr/pppppppp/8/8/8/8/PPPPPPPP/RNBQKBNR w KQkq - 0 1", &[20, 400, 8902, 197_281, 4_865_609], 3),
        ("r3k2r/p1ppqpb1/bn2pnp1/3PN3/1p2P3/2N2Q1p/PPPBBPPP/R3K2R w KQkq - 0 1", &[48, 2039, 97_862, 4_085_603], 2),
        ("8/2p5/3p4/KP5r/1R3p1k/8/4P1P1/8 w - - 0 1", &[14, 191, 2812, 43_238, 674_624], 4),
        ("r3k2r/Pppp1ppp/1b3nbN/nP6/BBP1P3/q4N2/Pp1P2PP/R2Q1RK1 w kq - 0 1", &[6, 264, 9467, 422_333], 3),
        ("rnbq1k1r/pp1Pbppp/2p5/8/2B5/8/PPP1NnPP/RNBQK2R w KQ - 1 8", &[44, 1486, 62_379], 2),
        ("r4rk1/1pp1qppp/p1np1n2/2b1p1B1/2B1P1b1/P1NP1N2/1PP1QPPP/R4RK1 w - - 0 10", &[46, 2079, 89_890], 2),
    ];
    for (fen, vals, shallow) in cases {
        let p = Pos::from_fen(fen)?;
        if p.to_fen() != *fen {
            return Err(format!("oracle FEN round trip failed for {fen}: {}", p.to_fen()));
        }
        let upto = if deep { vals.len() } else { *shallow };
        for (i, want) in vals.iter().enumerate().take(upto) {
            let got = perft(&p, i as u32 + 1);
            if got != *want {
                return Err(format!("oracle perft({}) of {fen} = {got}, expected {want}", i + 1));
            }
        }
    }
    // hand cases
    let hand: &[(&str, &str, bool)] = &[
        // e.p. capture that would expose the king along the rank: illegal
        ("8/8/8/KPp4r/8/8/8/4k3 w - c6 0 1", "b5c6", false),
        // e.p. capture legal
        ("4k3/8/8/1Pp5/8/8/8/4K3 w - c6 0 1", "b5c6", true),
        // e.p. by a diagonally pinned pawn that leaves the pin line: illegal
        ("4k3/8/3b4/1pP5/8/K7/8/8 w - b6 0 1", "c5b6", false),
        // castling through check
        ("4k3/8/8/8/8/8/7r/R3K3 w Q - 0 1", "e1c1", true),
        ("4k3/8/8/8/8/8/3r4/R3K3 w Q - 0 1", "e1c1", false),
        ("4k3/8/8/8/8/8/1r6/R3K3 w Q - 0 1", "e1c1", true),
        ("4k3/8/8/8/8/8/4r3/R3K3 w Q - 0 1", "e1c1", false),
        ("4k3/8/8/8/8/8/6r1/4K2R w K - 0 1", "e1g1", false),
        // promotion
        ("4k3/P7/8/8/8/8/8/4K3 w - - 0 1", "a7a8n", true),
        ("4k3/P7/8/8/8/8/8/4K3 w - - 0 1", "a7a8", false),
    ];
    for (fen, mv, want) in hand {
        let p = Pos::from_fen(fen)?;
        let got = p.find_legal(mv).is_some();
        if got != *want {
            return Err(format!("oracle hand case {fen} {mv}: legal={got}, expected {want}"));
        }
    }
    Ok(())
}
