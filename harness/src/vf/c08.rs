//! C08 - the UCI position command sets up exactly the described game, or nothing.
//!
//! Layer a: in-process session (hook H4 runs the same parser/executor as uci_loop):
//! after every command the session board must equal a session model (= last accepted
//! position) in every component, and `Err` is returned exactly for corrupted commands.
//! Layer b: the same sessions over the real binary, probed with a short search whose
//! bestmove must be legal in the model position.

use super::c01;
use super::c03::pos_diff;
use super::c05::pos_of_id;
use super::frame::*;
use super::oracle::{self as o, Game, Mv, Pos};
use super::uciproc::{self, Engine, Stream};
use super::{corpus, eng, gen};
use crate::board::Board;
use crate::uci::verif::Session;
use proptest::prelude::*;
use serde_json::{json, Value};
use std::time::Duration;

#[derive(Clone, Debug)]
pub struct Cmd {
    pub text: String,
    /// Some(game) = must be accepted and yield this game; None = must be refused
    pub accept: Option<Game>,
    pub is_position: bool,
    pub classes: Vec<&'static str>,
}

/// A string that is *not* a legal move at `p`, of the requested flavour.
pub fn corrupt_move(p: &Pos, legal: &[Mv], e: &mut Entropy) -> Option<(String, &'static str)> {
    let kinds = 15;
    for _ in 0..6 {
        let k = e.pick(kinds);
        let cand: Option<(String, &'static str)> = match k {
            0 => {
                // pseudo-legal move that leaves the king in check
                let ps: Vec<Mv> = p.pseudo_moves().into_iter().filter(|m| !legal.contains(m)).collect();
                if ps.is_empty() {
                    None
                } else {
                    Some((ps[e.pick(ps.len())].uci(), "leaves-king-in-check"))
                }
            }
            1 => {
                // a move of the opponent
                let mut q = p.clone();
                q.wtm = !q.wtm;
                q.ep = None;
                let ms = q.pseudo_moves();
                if ms.is_empty() {
                    None
                } else {
                    Some((ms[e.pick(ms.len())].uci(), "opponents-move"))
                }
            }
            2 => {
                let empties: Vec<usize> = (0..64).filter(|&s| p.sq[s] == 0).collect();
                if empties.is_empty() {
                    None
                } else {
                    let f = empties[e.pick(empties.len())];
                    let t = e.pick(64);
                    Some((format!("{}{}", o::sq_name(f), o::sq_name(t)), "missing-piece"))
                }
            }
            3 => legal.iter().find(|m| m.is_promo()).map(|m| (m.uci()[..4].to_string(), "promotion-without-suffix")),
            4 => {
                let np: Vec<&Mv> = legal.iter().filter(|m| !m.is_promo()).collect();
                if np.is_empty() {
                    None
                } else {
                    Some((format!("{}q", np[e.pick(np.len())].uci()), "suffix-on-non-promotion"))
                }
            }
            5 => {
                if legal.is_empty() {
                    None
                } else {
                    Some((legal[e.pick(legal.len())].uci().to_uppercase(), "uppercase"))
                }
            }
            6 => Some(("0000".into(), "null-move")),
            7 => Some(("O-O".into(), "san-castling")),
            8 => Some((if p.wtm { "e1h1" } else { "e8h8" }.into(), "king-takes-rook-castling")),
            9 => Some(("e2".into(), "too-short")),
            10 => Some(("e2e9".into(), "off-board")),
            11 => {
                // a legal move with something appended (for a promotion: after the suffix)
                if legal.is_empty() {
                    None
                } else {
                    let m = legal[e.pick(legal.len())].uci();
                    let extra = ["q", "x", "n", "1", "qq", "="][e.pick(6)];
                    Some((format!("{m}{extra}"), "legal-move-plus-trailing-characters"))
                }
            }
            12 => {
                // a promotion with extra characters after its suffix, when one is legal
                legal.iter().find(|m| m.is_promo()).map(|m| (format!("{}{}", m.uci(), ["q", "x", "r8"][e.pick(3)]), "promotion-plus-trailing-characters"))
            }
            13 => {
                // two legal moves glued into one token
                if legal.is_empty() {
                    None
                } else {
                    let m = legal[e.pick(legal.len())];
                    let next = p.make(m).legal_moves();
                    if next.is_empty() {
                        None
                    } else {
                        Some((format!("{}{}", m.uci(), next[e.pick(next.len())].uci()), "two-moves-glued"))
                    }
                }
            }
            _ => Some(("z9z9".into(), "garbage")),
        };
        if let Some((s, kind)) = cand {
            if p.find_legal(&s).is_none() {
                return Some((s, kind));
            }
        }
    }
    None
}

#[derive(Clone, Debug)]
pub struct Case {
    pub cmds: Vec<(u8, gen::GameCase, Vec<u16>)>,
}

pub fn strategy() -> impl Strategy<Value = Case> {
    proptest::collection::vec((0u8..12, gen::game_strategy(60), proptest::collection::vec(any::<u16>(), 12)), 1..=8).prop_map(|cmds| Case { cmds })
}

pub fn build_session(c: &Case, corp: &corpus::Corpus) -> Vec<Cmd> {
    let mut out: Vec<Cmd> = vec![];
    // the last accepted position command's game: a GUI re-sends it with a growing move list
    let mut last_game: Option<Game> = None;
    for (sel, g, ent) in &c.cmds {
        let mut e = Entropy::new(ent);
        // "take back": the previous command again with the last 1..3 moves dropped
        if *sel == 4 && last_game.as_ref().map_or(false, |g| !g.moves.is_empty()) {
            let mut game = last_game.clone().unwrap();
            for _ in 0..(1 + e.pick(3)).min(game.moves.len()) {
                game.undo();
            }
            let moves = game.moves_uci();
            let mut text = if game.start == Pos::startpos() { "position startpos".to_string() } else { format!("position fen {}", game.start.to_fen()) };
            if !moves.is_empty() {
                text.push_str(" moves ");
                text.push_str(&moves.join(" "));
            }
            last_game = Some(game.clone());
            out.push(Cmd { text, accept: Some(game), is_position: true, classes: vec!["previous-command-shortened"] });
            continue;
        }
        // "the same position, differently described": the position of the previous command given as
        // a FEN with other counters (no history), so that placement, side, rights, e.p. file and
        // therefore the key are equal while clocks and remembered positions differ
        if *sel == 5 && last_game.is_some() {
            let g = last_game.clone().unwrap();
            let mut p = g.cur.clone();
            p.hmc = (p.hmc + 1 + e.pick(60) as u32) % 100;
            p.fmn = p.fmn + 1 + e.pick(40) as u32;
            if p.is_valid_start().is_ok() {
                let game = Game::new(p.clone());
                last_game = Some(game.clone());
                out.push(Cmd { text: format!("position fen {}", p.to_fen()), accept: Some(game), is_position: true, classes: vec!["same-position-other-counters-no-history"] });
                continue;
            }
        }
        // "extend the previous command": same start, the same moves plus 0..3 more
        if (*sel == 2 || *sel == 3) && last_game.is_some() {
            let mut game = last_game.clone().unwrap();
            let more = e.pick(4);
            for _ in 0..more {
                let legal = game.cur.legal_moves();
                if legal.is_empty() {
                    break;
                }
                let m = gen::choose_move(&game, &legal, true, e.raw());
                game.play(m);
            }
            let moves = game.moves_uci();
            let mut text = if game.start == Pos::startpos() { "position startpos".to_string() } else { format!("position fen {}", game.start.to_fen()) };
            if !moves.is_empty() {
                text.push_str(" moves ");
                text.push_str(&moves.join(" "));
            }
            last_game = Some(game.clone());
            out.push(Cmd { text, accept: Some(game), is_position: true, classes: vec![if more == 0 { "same-command-again" } else { "previous-command-extended" }] });
            continue;
        }
        match sel {
            0 => out.push(Cmd { text: "ucinewgame".into(), accept: Some(Game::new(Pos::startpos())), is_position: false, classes: vec!["ucinewgame"] }),
            1 => out.push(Cmd { text: "isready".into(), accept: None, is_position: false, classes: vec!["isready"] }),
            _ => {
                let mix = gen::StartMix { startpos: 6, corpus: 4, synth: 3, pattern: 5 };
                let Some((start, _)) = gen::start_pos(&g.start, corp, mix) else { continue };
                let mut game = Game::new(start.clone());
                let mut classes: Vec<&'static str> = vec![];
                for &ch in &g.choices {
                    let legal = game.cur.legal_moves();
                    if legal.is_empty() {
                        break;
                    }
                    let m = gen::choose_move(&game, &legal, g.weighted, ch);
                    match c01::move_kind(&m) {
                        "castle" => classes.push("castle-in-list"),
                        "ep" => classes.push("ep-in-list"),
                        "promo" | "promo-capture" => classes.push("promotion-in-list"),
                        _ => {}
                    }
                    game.play(m);
                }
                let mut moves = game.moves_uci();
                let mut accept = Some(game.clone());
                // corruption of one move of the list (or one appended) in ~40% of the commands
                if *sel >= 8 {
                    let k = e.pick(moves.len() + 1);
                    // position before move k
                    let mut p = start.clone();
                    for m in game.moves.iter().take(k) {
                        p = p.make(*m);
                    }
                    let legal = p.legal_moves();
                    if let Some((bad, kind)) = corrupt_move(&p, &legal, &mut e) {
                        if k < moves.len() {
                            moves[k] = bad;
                        } else {
                            moves.push(bad);
                        }
                        accept = None;
                        classes.push("corrupted");
                        classes.push(kind);
                    }
                }
                let mut text = if start == Pos::startpos() && e.pick(4) != 0 {
                    "position startpos".to_string()
                } else if e.pick(4) == 0 {
                    // the FEN in its 4-field form: counters default to 0 and 1
                    classes.push("4-field-fen");
                    let start4 = Pos::from_fen(&start.to_fen4()).unwrap();
                    if let Some(g) = accept.as_mut() {
                        let mut g4 = Game::new(start4.clone());
                        for m in &g.moves {
                            g4.play(*m);
                        }
                        *g = g4;
                    }
                    format!("position fen {}", start.to_fen4())
                } else {
                    format!("position fen {}", start.to_fen())
                };
                if !moves.is_empty() {
                    text.push_str(" moves ");
                    text.push_str(&moves.join(" "));
                }
                classes.dedup();
                if let Some(g) = &accept {
                    last_game = Some(g.clone());
                }
                out.push(Cmd { text, accept, is_position: true, classes });
            }
        }
    }
    out
}

fn session_json(cmds: &[Cmd], upto: usize) -> Value {
    json!({"commands": cmds.iter().take(upto + 1).map(|c| json!({"text": c.text, "accept": c.accept.is_some(), "is_position": c.is_position})).collect::<Vec<_>>()})
}

/// The model after each command, given which commands are accepted.
fn model_after(model: &Game, c: &Cmd) -> Game {
    match (&c.accept, c.is_position || c.text == "ucinewgame") {
        (Some(g), true) => g.clone(),
        _ => model.clone(),
    }
}

/// The same tokens with other white space (decided by a hash of the text, so it is reproducible).
pub fn respace(text: &str) -> String {
    let h = o::hash_str(text);
    if h % 3 != 0 || text.len() > 2000 {
        return text.to_string();
    }
    let mut out = String::new();
    if h & 8 != 0 {
        out.push_str("  ");
    }
    let mut k = h >> 8;
    for (i, tok) in text.split_whitespace().enumerate() {
        if i > 0 {
            k = k.wrapping_mul(6364136223846793005).wrapping_add(1442695040888963407);
            out.push_str(match (k >> 33) % 5 {
                0 => "  ",
                1 => "\t",
                2 => " \t ",
                _ => " ",
            });
        }
        out.push_str(tok);
    }
    if h & 16 != 0 {
        out.push_str(" \t");
    }
    out
}

/// Layer a
pub fn run_inprocess(cmds: &[Cmd], rep: &mut Report) -> Result<(), Violation> {
    let mut sess = match guard(Session::new) {
        Ok(s) => s,
        Err(pm) => return Err(Violation::new("session", "session/panic/new", format!("Session::new panicked: {pm}"), json!(null))),
    };
    let mut model = Game::new(Pos::startpos());
    for (i, c) in cmds.iter().enumerate() {
        let cj = session_json(cmds, i);
        let r = guard(|| sess.line(&c.text));
        rep.eval(1);
        let res = match r {
            Ok(r) => r,
            Err(pm) => {
                return Err(Violation::new("session", &format!("session/panic/{}", panic_site(&pm)), format!("command '{}' panicked: {pm}", short(&c.text)), cj));
            }
        };
        let kind = c.classes.iter().copied().find(|k| !matches!(*k, "corrupted" | "castle-in-list" | "ep-in-list" | "promotion-in-list")).unwrap_or("plain");
        if c.is_position {
            match (&c.accept, &res) {
                (Some(_), Err(e)) => {
                    return Err(Violation::new("accept", &format!("accept/legal-game-refused/{}", c.classes.first().copied().unwrap_or("plain")), format!("a legal game was refused ({e}): '{}'", short(&c.text)), cj));
                }
                (None, Ok(())) => {
                    return Err(Violation::new("refuse", &format!("refuse/illegal-move-accepted/{kind}"), format!("a command with an illegal move ({kind}) was accepted: '{}'", short(&c.text)), cj));
                }
                _ => {}
            }
        }
        model = model_after(&model, c);
        // the session position must be the model position, whatever was sent earlier
        let board = sess.board();
        let snap = eng::snapshot(board);
        let d = pos_diff(&snap, &model.cur);
        if !d.is_empty() {
            let why = if c.is_position && c.accept.is_none() { "refused-command-changed-position" } else if c.is_position { "wrong-position" } else { "non-position-command" };
            return Err(Violation::new(
                "position",
                &format!("position/{why}/{}", d.join("+")),
                format!("after '{}' the session position is {} but should be {} (differs in {})", short(&c.text), snap.to_fen(), model.cur.to_fen(), d.join(",")),
                cj,
            ));
        }
        // behaves like it: legal moves, key, remembered earlier positions
        c01::check_node(&model.cur, board, &model.start.to_fen(), &model.moves_uci()).map_err(|mut v| {
            v.sig = format!("position/behaviour/{}", v.sig);
            v.clause = "position".into();
            v.replay = cj.clone();
            v
        })?;
        let fen = model.cur.to_fen();
        if let Ok(k) = guard(|| Board::from_fen(&fen).zkey) {
            if k != board.zkey {
                return Err(Violation::new("position", "position/key", format!("after '{}' the session key differs from the key of {fen}", short(&c.text)), cj));
            }
        }
        for id in &model.earlier {
            let f = pos_of_id(id).to_fen();
            if let Ok(k) = guard(|| Board::from_fen(&f).zkey) {
                if !board.position_reached(k) {
                    return Err(Violation::new("position", "position/earlier-not-remembered", format!("after '{}' an earlier position of the accepted game ({f}) is not remembered", short(&c.text)), cj));
                }
            }
        }
        for cl in &c.classes {
            rep.class(&format!("cmd:{cl}"));
        }
    }
    let _ = drain_stdout();
    Ok(())
}

fn short(s: &str) -> String {
    if s.len() > 160 {
        format!("{}...", &s[..160])
    } else {
        s.to_string()
    }
}

/// Layer b: real process; after every position/ucinewgame command a short search's
/// bestmove must be legal in the model position.
pub fn run_process(ctx: &Ctx, cmds: &[Cmd], rep: &mut Report) -> Result<(), Violation> {
    let mut eng_ = match Engine::spawn(&ctx.engine, &[]) {
        Ok(e) => e,
        Err(e) => {
            rep.infra_errors.push(format!("cannot spawn engine: {e}"));
            return Ok(());
        }
    };
    if !eng_.ready(Duration::from_secs(10)) {
        rep.infra_errors.push("engine did not answer the first isready".into());
        return Ok(());
    }
    let mut model = Game::new(Pos::startpos());
    for (i, c) in cmds.iter().enumerate() {
        let prev = model.clone();
        // the protocol allows arbitrary white space between tokens: a third of the commands are
        // sent with doubled blanks, tabs and blanks at both ends (same tokens, same meaning)
        let wire = respace(&c.text);
        if wire != c.text {
            rep.class("process:command-sent-with-extra-white-space");
        }
        eng_.send(&wire);
        model = model_after(&model, c);
        if !(c.is_position || c.text == "ucinewgame") {
            continue;
        }
        let legal: Vec<String> = model.cur.legal_moves().iter().map(|m| m.uci()).collect();
        if legal.is_empty() {
            continue;
        }
        rep.eval(1);
        let mut answer: Option<String> = None;
        for go in ["go nodes 2000", "go movetime 300"] {
            eng_.send(go);
            let ev = eng_.wait_for(Duration::from_secs(20), |e| (e.stream == Stream::Out && e.line.starts_with("bestmove")) || e.eof || (e.stream == Stream::Err && uciproc::is_panic_line(&e.line)));
            match ev {
                Some(e) if e.line.starts_with("bestmove") => {
                    answer = e.line.split_whitespace().nth(1).map(String::from);
                    break;
                }
                Some(e) if e.eof => break,
                _ => {
                    rep.class("probe:no-bestmove(C09)");
                }
            }
        }
        let Some(mv) = answer else {
            rep.class("probe:inconclusive");
            if eng_.try_status().is_some() {
                // the engine died on this command: C15's subject
                rep.class("probe:engine-died(C15)");
                return Ok(());
            }
            continue;
        };
        let mut r = session_json(cmds, i);
        if !legal.contains(&mv) {
            // which wrong position does it fit?
            let mut fits = "none";
            if prev.cur.find_legal(&mv).is_some() && prev.cur.pos_id() != model.cur.pos_id() {
                fits = "previous-position";
            }
            if let Some(g) = &c.accept {
                let _ = g;
            } else if c.is_position {
                // refused command: start of the refused command / its legal prefix
                fits = if fits == "none" { "refused-command's-position" } else { fits };
            }
            r["transcript"] = json!(eng_.transcript(20));
            let why = if c.is_position && c.accept.is_none() { "after-refused-command" } else { "after-accepted-command" };
            return Err(Violation::new(
                "process",
                &format!("process/{why}/{fits}"),
                format!("after '{}' the engine answered bestmove {mv}, which is not legal in the position that should be in force ({})", short(&c.text), model.cur.to_fen()),
                r,
            ));
        }
        // strength of this probe: would the move also be legal in a wrong candidate?
        let weak = prev.cur.pos_id() != model.cur.pos_id() && prev.cur.find_legal(&mv).is_some();
        rep.class(if weak { "probe:weak(move also legal in previous position)" } else { "probe:decisive" });
        if !eng_.ready(Duration::from_secs(5)) {
            rep.class("probe:no-readyok");
        }
    }
    eng_.send("quit");
    let _ = eng_.wait_exit(Duration::from_secs(2));
    Ok(())
}

pub const SHARDS: usize = 8;

pub fn run(ctx: &Ctx) -> Report {
    if ctx.shard.is_none() {
        // RCE_FUZZ_ONLY=1: only the campaign (used when measuring what the fuzzer finds alone)
        let mut rep = if std::env::var_os("RCE_FUZZ_ONLY").is_some() { Report::new() } else { run_sharded(ctx, SHARDS, SHARDS) };
        if ctx.tier == Tier::Thorough {
            super::fuzzuci::campaign(ctx, "C08", &mut rep);
        }
        return rep;
    }
    let mut rep = Report::new();
    let corp = corpus::load(&ctx.verif);
    // generator sessions as text with blind byte/token mutations, judged by a strict reading
    // of the grammar (fuzzuci.rs); the thorough tier adds the coverage-guided campaign
    super::fuzzuci::mutation_layer(ctx, "C08", ctx.tier.pick(48_000, 1_600_000) / ctx.shard_count() as u32, &mut rep);
    let cases = ctx.tier.pick(16_000, 400_000) / ctx.shard_count() as u32;
    run_prop(ctx, "c08a", cases, 2000, strategy(), &mut rep, |c, rep| {
        let cmds = build_session(c, &corp);
        if cmds.is_empty() {
            return Ok(());
        }
        rep.class("layer:in-process");
        let nt = cmds.iter().any(|c| !c.classes.is_empty() && c.is_position) || cmds.len() > 1;
        if nt {
            rep.nontrivial(o::hash_str(&cmds.iter().map(|c| c.text.clone()).collect::<Vec<_>>().join("\n")));
        }
        rep.sample(|| json!({"layer": "in-process", "commands": cmds.iter().map(|c| format!("{} => {}", short(&c.text), if !c.is_position { "n/a" } else if c.accept.is_some() { "accept" } else { "refuse" })).collect::<Vec<_>>()}));
        run_inprocess(&cmds, rep)
    });
    // very long legal games (knight shuffles, then a short tail with a forced answer): the
    // position command line is several kilobytes long
    if ctx.shard_index() < 4 {
        let plies = [820usize, 1000, 1644, 3000][ctx.shard_index()];
        let mut game = Game::new(Pos::startpos());
        let cyc = ["g1f3", "g8f6", "f3g1", "f6g8", "b1c3", "b8c6", "c3b1", "c6b8"];
        let mut i = 0;
        while game.moves.len() + 3 < plies || game.moves.len() % 2 == 1 || i % 4 != 0 {
            let m = game.cur.find_legal(cyc[i % 8]).unwrap();
            game.play(m);
            i += 1;
        }
        for u in ["f2f3", "e7e5", "g2g4"] {
            let m = game.cur.find_legal(u).unwrap();
            game.play(m);
        }
        let text = format!("position startpos moves {}", game.moves_uci().join(" "));
        let cmds = vec![
            // White to move before, Black to move after the long game: a command that is refused or
            // cut short leaves a position whose moves are not legal in the right one (decisive probe)
            Cmd { text: "position startpos".into(), accept: Some(Game::new(Pos::startpos())), is_position: true, classes: vec!["plain"] },
            Cmd { text, accept: Some(game), is_position: true, classes: vec!["very-long-game"] },
        ];
        rep.class("layer:process");
        rep.class("cmd:very-long-game");
        rep.nontrivial(o::hash_str(&format!("long-game-{plies}")));
        for r in [run_inprocess(&cmds, &mut rep), run_process(ctx, &cmds, &mut rep)] {
            if let Err(v) = r {
                if let Some(k) = ctx.is_known(&v.sig) {
                    rep.known(&v.sig, &k.text);
                } else {
                    rep.violation(v);
                }
            }
        }
    }
    let cases = ctx.tier.pick(480, 8000) / ctx.shard_count() as u32;
    run_prop(ctx, "c08b", cases, 60, strategy(), &mut rep, |c, rep| {
        let cmds = build_session(c, &corp);
        if cmds.is_empty() {
            return Ok(());
        }
        rep.class("layer:process");
        rep.nontrivial(o::hash_str(&format!("proc|{}", cmds.iter().map(|c| c.text.clone()).collect::<Vec<_>>().join("\n"))));
        rep.sample_for("process", || json!({"layer": "process", "commands": cmds.iter().map(|c| short(&c.text)).collect::<Vec<_>>()}));
        run_process(ctx, &cmds, rep)
    });
    rep
}

pub fn replay(ctx: &Ctx, case: &Value) -> Report {
    let mut rep = Report::new();
    // rebuild the commands; acceptance is recomputed from the text with the oracle
    let mut cmds = vec![];
    for c in case["commands"].as_array().cloned().unwrap_or_default() {
        let text = c["text"].as_str().unwrap_or("").to_string();
        let is_position = text.starts_with("position");
        let accept = if text == "ucinewgame" { Some(Game::new(Pos::startpos())) } else if is_position { parse_position(&text) } else { None };
        cmds.push(Cmd { text, accept, is_position, classes: vec!["replay"] });
    }
    if let Err(v) = run_inprocess(&cmds, &mut rep) {
        rep.violation(v);
        return rep;
    }
    if let Err(v) = run_process(ctx, &cmds, &mut rep) {
        rep.violation(v);
    }
    rep
}

/// Oracle-side reading of a well-shaped position command: the game it describes, or None
/// if some move is not legal.
pub fn parse_position(text: &str) -> Option<Game> {
    let toks: Vec<&str> = text.split_whitespace().collect();
    let (start, rest) = if toks.get(1) == Some(&"startpos") {
        (Pos::startpos(), &toks[2..])
    } else if toks.get(1) == Some(&"fen") && toks.len() >= 8 {
        (Pos::from_fen(&toks[2..8].join(" ")).ok()?, &toks[8..])
    } else {
        return None;
    };
    let mut g = Game::new(start);
    if rest.first() == Some(&"moves") {
        for u in &rest[1..] {
            let m = g.cur.find_legal(u)?;
            g.play(m);
        }
    }
    Some(g)
}

pub const LEVEL: &str = "exploration";
pub const RULE: &str = "UCI sessions of 1..8 commands from {position startpos|fen F [moves ...] (F in 6-field or 4-field form), the previous position command again, the position it led to given as a FEN with other counters (same key, other clocks, no history), extended by 1..3 more moves (as a GUI re-sends a growing game) or shortened by 1..3 moves (take-back), ucinewgame, isready}; move lists are legal games (up to 60 plies, special-move-weighted so castling, e.p. and all promotion suffixes occur as strings) and, in ~1/3 of the position commands, one move is corrupted (pseudo-legal but leaves the king in check, opponent's move, move of a missing piece, promotion without suffix, suffix on a non-promotion, uppercase, 0000, O-O, e1h1, e2, e2e9, z9z9, a legal move or promotion with trailing characters, two moves glued into one token - each verified by the oracle not to be legal there). Layer a (in-process session, hook H4): after EVERY command the session board == the model (last accepted position; startpos initially and after ucinewgame) in all components, its legal moves/check status == oracle, key == key of the oracle FEN, earlier positions of the accepted game remembered, and Err returned exactly for corrupted position commands. Plus four very long legal games (820..3000 plies, command lines of 4-15 kB) in both layers. Layer b (real binary; a third of the commands are sent with doubled blanks, tabs and blanks at both ends between the same tokens): after every position/ucinewgame command a 'go nodes 2000' probe's bestmove must be legal in the model position (probes whose move is also legal in the previous position are counted as weak). Layer c (in-process, fuzzuci.rs): the generated sessions (and the grammar lines of C15) as raw text with 0..6 blind byte/token mutations (delete/insert vocabulary word/replace byte/delete or duplicate token/digit change/space<->newline/swap/truncate); every line is classified by a strict reading of the grammar on the oracle side (position startpos|fen <canonical valid FEN, 4 or 6 fields> [moves m1..mk, k>=1] => accepted exactly when every mi is legal; exactly ucinewgame => start position; lines without position/ucinewgame/go/quit/fen words => position unchanged; everything else is fed but not judged beyond self-consistency of the board, and lines with an invalid FEN argument or a go/quit word are not fed) and the same after-every-line comparison as layer a runs. The thorough tier adds a coverage-guided libFuzzer campaign (target fuzz_uci, 16 forks, seeded with 96 generator sessions and a vocabulary dictionary) over the same text oracle; its artifacts are re-judged in release mode. Non-trivial = session with a special move in a list, a corruption, or more than one command (text layers: at least one in-grammar position command); distinct by session text.";
pub const ASSUMPTIONS: &[&str] = &[
    "rules oracle + session model (last accepted position)",
    "shapes whose meaning the statement leaves open (junk where 'moves' belongs, empty 'moves' tail) are not generated here; C15 sends them and asserts liveness only",
    "hook H4's Session runs UCICommand::new + execute_command exactly as uci_loop does",
];
