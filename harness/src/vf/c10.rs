//! C10 - stop is never lost and go is never dropped, under any timing.
//!
//! The harness owns the schedule: labelled schedule points (hook H3) print
//! `verif-sched <label>` on stderr and hold a window open for a configured time; the
//! driver delivers the next command when it *sees* the label (or the bestmove line), i.e.
//! inside the window.  Oracle: every go => exactly one legal bestmove; after stop the
//! bestmove arrives within 2 s (+ injected sleeps); every isready => readyok; nothing a
//! conformant GUI sends is refused.

use super::c09::position_command;
use super::frame::*;
use super::oracle::{self as o, Game, Pos};
use super::uciproc::{self, Engine, Stream};
use super::{corpus, gen};
use proptest::prelude::*;
use serde_json::{json, Value};
use std::time::Duration;

pub const LABELS: [&str; 7] = ["search:enter", "search:armed", "search:iter1", "search:pre_best", "search:post_best", "uci:spawned", "uci:done"];

#[derive(Clone, Debug)]
pub struct Round {
    pub position: String,
    pub fen: String,
    pub go: String,
    /// "label:<name>" | "delay:<ms>" | "bestmove" | "none"
    pub trigger: String,
    /// "stop" | "isready" | "position" | "none"
    pub action: String,
}

#[derive(Clone, Debug)]
pub struct Sched {
    pub window: String,
    pub sleep_ms: u64,
    pub rounds: Vec<Round>,
}

#[derive(Clone, Debug)]
pub struct Case {
    pub window: u8,
    pub sleep: u8,
    pub rounds: Vec<(gen::GameCase, u8, u8, u8)>,
}

pub fn strategy() -> impl Strategy<Value = Case> {
    (0u8..7, 0u8..8, proptest::collection::vec((gen::game_strategy(20), 0u8..8, 0u8..12, 0u8..6), 1..=3)).prop_map(|(window, sleep, rounds)| Case { window, sleep, rounds })
}

/// Positions whose search may take a shortcut (forced move, dead draw, clock run out, repetition).
pub const FAST_EXIT: [(&str, &str); 8] = [
    ("7k/8/8/8/8/8/6PP/q5K1 w - - 0 1", ""),
    ("Q5k1/6pp/8/8/8/8/8/7K b - - 0 1", ""),
    ("8/8/8/3k4/8/3K4/8/8 w - - 0 1", ""),
    ("7k/8/8/8/8/8/R7/K7 b - - 100 80", ""),
    ("7k/8/8/8/8/8/R7/K7 w - - 99 80", ""),
    ("rnbqkbnr/pppppppp/8/8/8/8/PPPPPPPP/RNBQKBNR w KQkq - 0 1", "g1f3 g8f6 f3g1 f6g8 g1f3 g8f6 f3g1 f6g8"),
    ("6k1/5ppp/8/8/8/8/5PP1/r5K1 w - - 0 1", ""),
    ("3k3R/8/4K3/8/8/8/8/8 b - - 0 1", ""),
];

pub fn build(c: &Case, corp: &corpus::Corpus) -> Option<Sched> {
    let window = LABELS[c.window as usize % 6].to_string(); // uci:done is trace-only
    // mostly short windows; now and then one that outlasts any bounded wait the engine may use
    let sleep_ms = [50u64, 150, 300, 50, 150, 300, 800, 1500][c.sleep as usize % 8];
    let mut rounds = vec![];
    for (g, go_sel, trig_sel, act_sel) in &c.rounds {
        let mix = gen::StartMix { startpos: 4, corpus: 5, synth: 2, pattern: 3 };
        let (start, _) = gen::start_pos(&g.start, corp, mix)?;
        let mut game = Game::new(start);
        for &ch in &g.choices {
            let l = game.cur.legal_moves();
            if l.is_empty() {
                break;
            }
            game.play(gen::choose_move(&game, &l, g.weighted, ch));
        }
        // mostly positions with a legal move; a finished game (mate / stalemate) now and then:
        // its go must still get exactly one bestmove line (content not judged) and must not
        // disturb the following round
        // searches that may end through a shortcut: a single legal move, a bare-kings draw, a
        // fifty-move clock that has run out, a position repeated in the game
        if (*go_sel as usize * 5 + *trig_sel as usize * 3 + *act_sel as usize) % 6 == 0 {
            let k = (*go_sel as usize + *trig_sel as usize + g.choices.len()) % FAST_EXIT.len();
            let (fen, moves) = FAST_EXIT[k];
            if let Ok(p) = Pos::from_fen(fen) {
                let mut g2 = Game::new(p);
                for u in moves.split_whitespace() {
                    if let Some(m) = g2.cur.find_legal(u) {
                        g2.play(m);
                    }
                }
                if !g2.cur.legal_moves().is_empty() {
                    game = g2;
                }
            }
        }
        let keep_terminal = (*go_sel as usize + *act_sel as usize) % 4 == 0;
        if !keep_terminal {
            while game.cur.legal_moves().is_empty() && !game.moves.is_empty() {
                game.undo();
            }
            if game.cur.legal_moves().is_empty() {
                continue;
            }
        }
        let go = match go_sel % 8 {
            0 | 1 | 2 => "go infinite".to_string(),
            3 => "go movetime 300".to_string(),
            4 => "go nodes 3000".to_string(),
            5 => "go nodes 40000".to_string(),
            6 => "go depth 3".to_string(),
            _ => "go wtime 4000 btime 4000".to_string(),
        };
        let trigger = match trig_sel % 12 {
            0 | 1 | 2 | 3 => format!("label:{window}"),
            4 => "label:search:enter".to_string(),
            5 => "label:search:iter1".to_string(),
            6 => "label:uci:spawned".to_string(),
            7 => "bestmove".to_string(),
            8 => "delay:0".to_string(),
            9 => "delay:5".to_string(),
            10 => "delay:50".to_string(),
            _ => "none".to_string(),
        };
        let mut action = match act_sel % 6 {
            0 | 1 | 2 => "stop",
            3 => "isready",
            4 => {
                if trig_sel % 2 == 0 {
                    "position"
                } else {
                    "ucinewgame"
                }
            }
            _ => "none",
        }
        .to_string();
        // a second go while the first search is still running (not protocol-conformant; its own
        // fate is not judged, but the stop that follows must still end the running search)
        if go == "go infinite" && (trig_sel + act_sel) % 5 == 0 {
            action = if go_sel % 2 == 0 { "go" } else { "isready+go" }.to_string();
        }
        rounds.push(Round { position: position_command(&game.start, &game.moves_uci()), fen: game.cur.to_fen(), go, trigger, action });
    }
    if rounds.is_empty() {
        return None;
    }
    Some(Sched { window, sleep_ms, rounds })
}

pub fn sched_json(s: &Sched) -> Value {
    json!({"window": s.window, "sleep_ms": s.sleep_ms, "rounds": s.rounds.iter().map(|r| json!({"position": r.position, "fen": r.fen, "go": r.go, "trigger": r.trigger, "action": r.action})).collect::<Vec<_>>()})
}

fn is_best(e: &uciproc::Event) -> bool {
    e.stream == Stream::Out && e.line.starts_with("bestmove")
}
fn is_label(e: &uciproc::Event, l: &str) -> bool {
    e.stream == Stream::Err && e.line.trim() == format!("verif-sched {l}")
}

/// A timeout verdict reached while the engine process was being kept from running (see
/// `Engine::starved`) says nothing about the engine: the schedule is run again (twice at most);
/// if the machine stays that loaded the case is reported as inconclusive (exit 2).
pub fn run_sched(ctx: &Ctx, s: &Sched, rep: &mut Report) -> Result<(), Violation> {
    let mut starved = 0;
    loop {
        let mut scratch = Report::new();
        let r = run_sched_once(ctx, s, if starved == 0 { &mut *rep } else { &mut scratch });
        match r {
            Err(v) if v.sig.ends_with("/starved") => {
                starved += 1;
                rep.class("timeout-while-engine-starved-of-cpu(retried; not a violation)");
                if starved >= 3 {
                    rep.infra_errors.push(format!("inconclusive: the engine process was starved of CPU in three attempts ({})", v.detail));
                    return Ok(());
                }
            }
            other => return other,
        }
    }
}

fn run_sched_once(ctx: &Ctx, s: &Sched, rep: &mut Report) -> Result<(), Violation> {
    let env_val = LABELS.iter().map(|l| format!("{l}={}", if *l == s.window { s.sleep_ms } else { 0 })).collect::<Vec<_>>().join(",");
    let mut eng = match Engine::spawn(&ctx.engine, &[("RCE_VERIF_SCHED".to_string(), env_val)]) {
        Ok(e) => e,
        Err(e) => {
            rep.infra_errors.push(format!("cannot spawn engine: {e}"));
            return Ok(());
        }
    };
    let replay = sched_json(s);
    let fail = |clause: &str, sig: String, detail: String, eng: &Engine| -> Violation {
        let mut r = replay.clone();
        r["transcript"] = json!(eng.transcript(60));
        Violation::new(clause, &sig, detail, r)
    };
    if !eng.ready(Duration::from_secs(10)) {
        rep.infra_errors.push("engine did not answer the first isready".into());
        return Ok(());
    }
    // every schedule point may sleep once or twice per search
    let slack = Duration::from_millis(4 * s.sleep_ms);
    let mut order: Vec<String> = vec![];
    let mut optional_best = 0usize;
    let mut seen_optional = 0usize;
    for (ri, r) in s.rounds.iter().enumerate() {
        rep.eval(1);
        let pos = Pos::from_fen(&r.fen).unwrap();
        eng.send(&r.position);
        let cpu_round = eng.cpu_ms();
        eng.send(&r.go);
        order.push("go".into());
        let self_ending = r.go != "go infinite";
        let mut got_best: Option<String> = None;
        let mut stop_sent_at: Option<Duration> = None;
        // trigger
        let trig_class: String;
        match r.trigger.split_once(':') {
            Some(("label", l)) => {
                trig_class = format!("label:{l}");
                // wait for the label (a bestmove may come first if the search ends quickly)
                let ev = eng.wait_for(Duration::from_secs(20) + slack, |e| is_label(e, l) || is_best(e) || e.eof);
                match ev {
                    Some(e) if is_best(&e) => {
                        got_best = e.line.split_whitespace().nth(1).map(String::from);
                        order.push("bestmove".into());
                    }
                    Some(e) if e.eof => {}
                    Some(_) => order.push(format!("<{l}>")),
                    None => {}
                }
            }
            Some(("delay", ms)) => {
                trig_class = format!("delay:{ms}");
                let ms: u64 = ms.parse().unwrap_or(0);
                if ms > 0 {
                    std::thread::sleep(Duration::from_millis(ms));
                }
            }
            _ if r.trigger == "bestmove" => {
                trig_class = "bestmove".into();
                if self_ending {
                    let dl = Duration::from_secs(20) + slack;
                    if let Some(e) = eng.wait_for(dl, |e| is_best(e) || e.eof) {
                        if is_best(&e) {
                            got_best = e.line.split_whitespace().nth(1).map(String::from);
                            order.push("bestmove".into());
                        }
                    }
                }
            }
            _ => trig_class = "none".into(),
        }
        // action, delivered inside the window the trigger opened
        match r.action.as_str() {
            "stop" => {
                eng.send("stop");
                stop_sent_at = Some(eng.now());
                order.push("stop".into());
            }
            "isready" => {
                eng.send("isready");
                order.push("isready".into());
                // the bestmove may overtake the readyok: take note of it while waiting
                let until = std::time::Instant::now() + Duration::from_secs(3) + slack;
                loop {
                    let left = until.saturating_duration_since(std::time::Instant::now());
                    let ev = eng.wait_for(left, |e| (e.stream == Stream::Out && e.line.trim() == "readyok") || is_best(e) || e.eof);
                    match ev {
                        Some(e) if is_best(&e) => {
                            if got_best.is_none() {
                                got_best = e.line.split_whitespace().nth(1).map(String::from);
                                order.push("bestmove".into());
                            }
                        }
                        Some(e) if !e.eof => break,
                        _ => {
                            let sv = if eng.starved(cpu_round, Duration::from_secs(3)) { "/starved" } else { "" };
                            return Err(fail("readyok", format!("readyok/missing/{trig_class}{sv}"), format!("round {}: isready sent at {} was not answered within 3 s", ri + 1, trig_class), &eng));
                        }
                    }
                }
            }
            "isready+go" => {
                // the command loop answers isready while the search runs, THEN a second go arrives
                // (not conformant; its fate is not judged), then stop: the running search must end
                eng.send("isready");
                order.push("isready".into());
                let _ = eng.wait_for(Duration::from_secs(3) + slack, |e| (e.stream == Stream::Out && e.line.trim() == "readyok") || e.eof);
                eng.send("go depth 1");
                order.push("go(second)".into());
                optional_best += 1;
                eng.send("stop");
                stop_sent_at = Some(eng.now());
                order.push("stop".into());
            }
            "go" => {
                eng.send("go depth 1");
                order.push("go(second)".into());
                optional_best += 1;
                eng.send("stop");
                stop_sent_at = Some(eng.now());
                order.push("stop".into());
            }
            "ucinewgame" => {
                // a new game announced while the search runs: the running search still owes its answer
                eng.send("ucinewgame");
                order.push("ucinewgame".into());
            }
            "position" => {
                // a different position while the search runs: must not affect the running search's answer
                eng.send("position startpos moves e2e4 e7e5");
                order.push("position".into());
            }
            _ => {}
        }
        // the answer
        if got_best.is_none() {
            if !self_ending && stop_sent_at.is_none() {
                eng.send("stop");
                stop_sent_at = Some(eng.now());
                order.push("stop".into());
            }
            let dl = match (stop_sent_at, self_ending) {
                (Some(_), _) if !self_ending => Duration::from_secs(2) + slack,
                (Some(_), _) => Duration::from_secs(2) + slack, // a stop ends any running search promptly
                (None, _) => {
                    if r.go.contains("movetime") {
                        Duration::from_millis(300 + 3000) + slack
                    } else if r.go.contains("wtime") {
                        Duration::from_millis(4000 + 3000) + slack
                    } else {
                        // nodes <= 40000 / depth 3: sized to finish well under a second
                        Duration::from_secs(20) + slack
                    }
                }
            };
            let ev = eng.wait_for(dl, |e| is_best(e) || e.eof || (e.stream == Stream::Err && uciproc::is_panic_line(&e.line)));
            match ev {
                Some(e) if is_best(&e) => {
                    got_best = e.line.split_whitespace().nth(1).map(String::from);
                    order.push("bestmove".into());
                }
                other => {
                    let refused = optional_best == 0 && eng.stderr_lines().iter().any(|e| e.line.contains("already running"));
                    let panicked = other.as_ref().map_or(false, |e| e.stream == Stream::Err);
                    let kind = if refused {
                        "go-refused"
                    } else if panicked {
                        "search-thread-panic"
                    } else if stop_sent_at.is_some() {
                        "stop-lost"
                    } else {
                        "no-bestmove"
                    };
                    // held in a forced window the engine sleeps by design: only the time after the window counts
                    let sv = if !refused && !panicked && eng.starved(cpu_round, dl) { "/starved" } else { "" };
                    return Err(fail(
                        "one-bestmove",
                        format!("one-bestmove/{kind}/{trig_class}/{}{sv}", r.action),
                        format!(
                            "round {}: '{}' (trigger {}, action {}, window {}={} ms) got no bestmove within {} ms{}",
                            ri + 1,
                            r.go,
                            r.trigger,
                            r.action,
                            s.window,
                            s.sleep_ms,
                            dl.as_millis(),
                            if refused { " - the engine refused a go ('Search is already running') although the previous bestmove had been sent" } else { "" }
                        ),
                        &eng,
                    ));
                }
            }
        }
        let mv = got_best.unwrap();
        let terminal = pos.legal_moves().is_empty();
        if terminal {
            rep.class("round:finished-game(bestmove content not judged)");
        }
        if r.action == "go" || r.action == "isready+go" {
            // if the engine queued the second go instead of refusing it, let it finish
            if let Some(e) = eng.wait_for(Duration::from_millis(300) + slack, |e| is_best(e) || e.eof) {
                if is_best(&e) {
                    seen_optional += 1;
                }
            }
        }
        if !terminal && pos.find_legal(&mv).is_none() {
            return Err(fail("legal", format!("legal/illegal-bestmove/{}", r.action), format!("round {}: bestmove {mv} is not legal in the position current when go was sent ({})", ri + 1, r.fen), &eng));
        }
        if r.action == "position" {
            // restore for nothing: the next round sends its own position
        }
        // classification of the realised order
        rep.class(&format!("trigger:{}", trig_class.split(':').next().unwrap_or("")));
        rep.class(&format!("action:{}", r.action));
    }
    // no command of a conformant script may have been refused
    if optional_best == 0 && eng.stderr_lines().iter().any(|e| e.line.contains("already running")) {
        return Err(fail("not-dropped", "not-dropped/go-refused".into(), "the engine refused a go ('Search is already running') although every go was sent after the previous bestmove".into(), &eng));
    }
    let cpu_end = eng.cpu_ms();
    if !eng.ready(Duration::from_secs(3) + slack) {
        let sv = if eng.starved(cpu_end, Duration::from_secs(3)) { "/starved" } else { "" };
        return Err(fail("readyok", format!("readyok/missing/end{sv}"), "no readyok at the end of the schedule".into(), &eng));
    }
    eng.settle(Duration::from_millis(20));
    // every search has been answered or stopped: the engine must be idle now.  A search that is
    // still running (a stop that reached the wrong search, a thread nobody owns any more) shows
    // as CPU consumption and as info lines that keep coming.
    {
        let lines_before = eng.stdout_lines().len();
        let c0 = eng.cpu_ms();
        eng.settle(Duration::from_millis(400));
        let c1 = eng.cpu_ms();
        let busy = match (c0, c1) {
            (Some(a), Some(b)) => b.saturating_sub(a),
            _ => 0,
        };
        let late_lines = eng.stdout_lines().len() - lines_before;
        if busy >= 250 {
            return Err(fail("stop", "stop/search-still-running-at-the-end".into(), format!("every go had its bestmove and the last isready its readyok, yet the engine consumed {busy} ms of CPU in the following 400 ms ({late_lines} more output lines): a search is still running"), &eng));
        }
        rep.class("end-of-schedule:engine-idle");
    }
    let n_best = eng.stdout_lines().iter().filter(|e| e.line.starts_with("bestmove")).count();
    let _ = seen_optional;
    if n_best < s.rounds.len() || n_best > s.rounds.len() + optional_best {
        return Err(fail("one-bestmove", "one-bestmove/count".into(), format!("{} go commands, {n_best} bestmove lines", s.rounds.len()), &eng));
    }
    // realised interleaving: labels and commands in the order they happened
    let realised: Vec<String> = eng
        .log
        .iter()
        .filter_map(|e| match e.stream {
            Stream::In => Some(format!(">{}", e.line.split_whitespace().next().unwrap_or(""))),
            Stream::Err => e.line.trim().strip_prefix("verif-sched ").map(|l| format!("<{l}>")),
            Stream::Out => {
                if e.line.starts_with("bestmove") {
                    Some("bestmove".into())
                } else {
                    None
                }
            }
        })
        .filter(|x| x != ">isready" || true)
        .collect();
    // non-trivial: a command was executed inside a forced window (between the window's
    // label and the next label of the search thread)
    let mut inside = false;
    for w in realised.windows(2) {
        if w[0] == format!("<{}>", s.window) && w[1].starts_with('>') {
            inside = true;
        }
    }
    if inside {
        rep.class("command-inside-forced-window");
        rep.nontrivial(o::hash_str(&realised.join(" ")));
    }
    rep.sample(|| json!({"window": format!("{}={}ms", s.window, s.sleep_ms), "realised_order": realised.join(" ")}));
    eng.send("quit");
    let _ = eng.wait_exit(Duration::from_secs(2) + slack);
    Ok(())
}

pub const SHARDS: usize = 4;

pub fn fixed_schedules() -> Vec<Sched> {
    let sp = Pos::startpos().to_fen();
    let rd = |go: &str, trigger: &str, action: &str| Round { position: "position startpos".into(), fen: sp.clone(), go: go.into(), trigger: trigger.into(), action: action.into() };
    vec![
        // stop immediately after go, before the search thread has (re-)armed its flag
        Sched { window: "search:enter".into(), sleep_ms: 150, rounds: vec![rd("go infinite", "label:search:enter", "stop")] },
        Sched { window: "search:enter".into(), sleep_ms: 150, rounds: vec![rd("go infinite", "delay:0", "stop")] },
        // stop before the first iteration finished / in the middle / after the search ended
        Sched { window: "search:armed".into(), sleep_ms: 150, rounds: vec![rd("go infinite", "label:search:armed", "stop")] },
        Sched { window: "search:iter1".into(), sleep_ms: 150, rounds: vec![rd("go infinite", "label:search:iter1", "stop")] },
        Sched { window: "search:post_best".into(), sleep_ms: 150, rounds: vec![rd("go nodes 3000", "bestmove", "stop"), rd("go nodes 3000", "none", "none")] },
        // a new go right after a bestmove, while the search thread has not exited yet
        Sched { window: "search:post_best".into(), sleep_ms: 300, rounds: vec![rd("go depth 3", "bestmove", "none"), rd("go depth 3", "bestmove", "none"), rd("go nodes 3000", "none", "none")] },
        Sched { window: "search:pre_best".into(), sleep_ms: 150, rounds: vec![rd("go movetime 300", "label:search:pre_best", "stop"), rd("go depth 3", "none", "none")] },
        Sched { window: "uci:spawned".into(), sleep_ms: 150, rounds: vec![rd("go infinite", "label:uci:spawned", "stop")] },
        // a second go while searching, then stop; the next conformant go must be accepted
        Sched { window: "search:iter1".into(), sleep_ms: 50, rounds: vec![rd("go infinite", "label:search:iter1", "go"), rd("go depth 2", "none", "none")] },
        // isready answered while searching, then a second go, then stop: the first search must end
        Sched { window: "search:iter1".into(), sleep_ms: 50, rounds: vec![rd("go infinite", "delay:50", "isready+go"), rd("go depth 2", "none", "none")] },
        // a forced move (one legal move) answered, the next go right after its bestmove while the
        // search thread is held before it exits; the same with a bare-kings draw
        Sched {
            window: "search:post_best".into(),
            sleep_ms: 400,
            rounds: vec![
                Round { position: "position fen 7k/8/8/8/8/8/6PP/q5K1 w - - 0 1".into(), fen: "7k/8/8/8/8/8/6PP/q5K1 w - - 0 1".into(), go: "go depth 3".into(), trigger: "bestmove".into(), action: "none".into() },
                Round { position: "position fen 7k/8/8/8/8/8/6PP/q5K1 w - - 0 1".into(), fen: "7k/8/8/8/8/8/6PP/q5K1 w - - 0 1".into(), go: "go depth 3".into(), trigger: "bestmove".into(), action: "none".into() },
                rd("go depth 2", "none", "none"),
            ],
        },
        Sched {
            window: "search:post_best".into(),
            sleep_ms: 400,
            rounds: vec![
                Round { position: "position fen 8/8/8/3k4/8/3K4/8/8 w - - 0 1".into(), fen: "8/8/8/3k4/8/3K4/8/8 w - - 0 1".into(), go: "go depth 4".into(), trigger: "bestmove".into(), action: "none".into() },
                rd("go depth 2", "bestmove", "none"),
                rd("go depth 2", "none", "none"),
            ],
        },
        // windows that outlast any bounded wait: the search thread is held 1.5 s after / before its
        // bestmove line while the next go arrives
        Sched { window: "search:post_best".into(), sleep_ms: 1500, rounds: vec![rd("go depth 2", "bestmove", "none"), rd("go depth 2", "bestmove", "none"), rd("go depth 2", "none", "none")] },
        Sched { window: "search:pre_best".into(), sleep_ms: 1500, rounds: vec![rd("go infinite", "delay:50", "stop"), rd("go depth 2", "none", "none")] },
        // a finished game (fool's mate) answered, next go right after its bestmove
        Sched {
            window: "search:post_best".into(),
            sleep_ms: 300,
            rounds: vec![
                Round { position: "position startpos moves f2f3 e7e5 g2g4 d8h4".into(), fen: "rnb1kbnr/pppp1ppp/8/4p3/6Pq/5P2/PPPPP2P/RNBQKBNR w KQkq - 1 3".into(), go: "go depth 2".into(), trigger: "bestmove".into(), action: "none".into() },
                rd("go depth 2", "none", "none"),
            ],
        },
    ]
}

/// Stop storm: many quick (position, go, short random delay, stop) rounds on one engine with
/// no window forced, so that races of a few nanoseconds to microseconds inside the search's
/// own polling get hundreds of chances.  Positions include capture-saturated ones, where a
/// stop is only prompt if it is polled inside quiescence.
pub fn stop_storm(ctx: &Ctx, plan: &[(u16, u16, u16)], corp: &corpus::Corpus, rep: &mut Report) -> Result<(), Violation> {
    // timeouts while the engine (or the harness) was kept from running are retried, see run_sched
    let mut starved = 0;
    loop {
        let mut scratch = Report::new();
        let r = stop_storm_once(ctx, plan, corp, if starved == 0 { &mut *rep } else { &mut scratch });
        match r {
            Err(v) if v.sig.ends_with("/starved") => {
                starved += 1;
                rep.class("timeout-while-engine-starved-of-cpu(retried; not a violation)");
                if starved >= 3 {
                    rep.infra_errors.push(format!("inconclusive: the engine process was starved of CPU in three attempts ({})", v.detail));
                    return Ok(());
                }
            }
            other => return other,
        }
    }
}

fn stop_storm_once(ctx: &Ctx, plan: &[(u16, u16, u16)], corp: &corpus::Corpus, rep: &mut Report) -> Result<(), Violation> {
    let mut eng = match Engine::spawn(&ctx.engine, &[]) {
        Ok(e) => e,
        Err(e) => {
            rep.infra_errors.push(format!("cannot spawn engine: {e}"));
            return Ok(());
        }
    };
    if !eng.ready(Duration::from_secs(10)) {
        rep.infra_errors.push("engine did not answer the first isready".into());
        return Ok(());
    }
    const GOS: [&str; 6] = ["go infinite", "go movetime 5000", "go nodes 500000000", "go wtime 200000 btime 200000", "go depth 60", "go movetime 4000 nodes 400000000"];
    let mut script: Vec<Value> = vec![];
    for (ri, &(psel, gsel, dsel)) in plan.iter().enumerate() {
        // position: startpos, a corpus entry, or a capture-saturated construction
        let ent = [psel, gsel.wrapping_mul(31), dsel.wrapping_mul(17), psel ^ dsel, 9, 77, 1234, 40000, 7, 50000, 3, 21000, 9999, 5, 60000, 42, 31000, 8, 15000, 2, 45000, 11, 52000, 6, 33000, 1, 27000, 4, 39000, 13];
        let pos = match psel % 4 {
            0 => Pos::startpos(),
            1 | 2 => {
                let c = &corp.positions[pick16(psel.wrapping_mul(2654), corp.len())];
                if c.legal_moves().is_empty() {
                    Pos::startpos()
                } else {
                    c.clone()
                }
            }
            _ => gen::heavy_pos(&mut Entropy::new(&ent)).unwrap_or_else(Pos::startpos),
        };
        let heavy = psel % 4 == 3;
        let go = GOS[pick16(gsel, GOS.len())];
        // delay 0 .. ~30 ms, microsecond granularity, skewed towards short
        let us = (dsel as u64 * dsel as u64) / 143_000;
        let fen = pos.to_fen();
        script.push(json!({"fen": fen, "go": go, "delay_us": us}));
        eng.send(&format!("position fen {fen}"));
        let cpu0 = eng.cpu_ms();
        eng.send(go);
        if us > 0 {
            std::thread::sleep(Duration::from_micros(us));
        }
        eng.send("stop");
        rep.eval(1);
        let ev = eng.wait_for(Duration::from_secs(2), |e| is_best(e) || e.eof || (e.stream == Stream::Err && uciproc::is_panic_line(&e.line)));
        let ok = matches!(&ev, Some(e) if is_best(e));
        if !ok {
            let refused = eng.stderr_lines().iter().any(|e| e.line.contains("already running"));
            let kind = if refused { "go-refused" } else { "stop-lost-or-late" };
            let sv = if !refused && eng.starved(cpu0, Duration::from_secs(2)) { "/starved" } else { "" };
            let cls = format!("{}/{}{sv}", go.split_whitespace().nth(1).unwrap_or(""), if heavy { "capture-saturated" } else { "ordinary" });
            return Err(Violation::new(
                "one-bestmove",
                &format!("one-bestmove/{kind}/storm/{cls}"),
                format!("stop storm round {}: '{go}' at {fen}, stop sent after {us} us: no bestmove within 2 s{}", ri + 1, if refused { " (a go was refused: 'Search is already running')" } else { "" }),
                json!({"storm": script, "transcript": eng.transcript(24)}),
            ));
        }
        let mv = ev.unwrap().line.split_whitespace().nth(1).unwrap_or("").to_string();
        if pos.find_legal(&mv).is_none() {
            return Err(Violation::new("legal", "legal/illegal-bestmove/storm", format!("stop storm round {}: bestmove {mv} is not legal at {fen}", ri + 1), json!({"storm": script})));
        }
        rep.class(if heavy { "storm:capture-saturated-position" } else { "storm:ordinary-position" });
        rep.class(&format!("storm:{}", go.split_whitespace().nth(1).unwrap_or("")));
        rep.nontrivial(o::hash_str(&format!("storm|{fen}|{go}|{us}")));
    }
    let cpu1 = eng.cpu_ms();
    if !eng.ready(Duration::from_secs(3)) {
        let sv = if eng.starved(cpu1, Duration::from_secs(3)) { "/starved" } else { "" };
        return Err(Violation::new("readyok", &format!("readyok/missing/storm-end{sv}"), "no readyok after the stop storm".to_string(), json!({"storm": script})));
    }
    eng.send("quit");
    let _ = eng.wait_exit(Duration::from_secs(2));
    Ok(())
}

/// isready storm: hundreds of very short searches, each immediately followed by a burst of
/// isready lines, so that the command loop prints `readyok` at the very moment the search thread
/// prints its info and bestmove lines.  Every go must still get its own, intact bestmove line and
/// every isready its own readyok line.
pub fn isready_storm(ctx: &Ctx, rounds: usize, bursts: &[u16], rep: &mut Report) -> Result<(), Violation> {
    let mut eng = match Engine::spawn(&ctx.engine, &[]) {
        Ok(e) => e,
        Err(e) => {
            rep.infra_errors.push(format!("cannot spawn engine: {e}"));
            return Ok(());
        }
    };
    if !eng.ready(Duration::from_secs(10)) {
        rep.infra_errors.push("engine did not answer the first isready".into());
        return Ok(());
    }
    let base_ready = eng.stdout_lines().iter().filter(|e| e.line.trim() == "readyok").count();
    let mut sent_ready = 0usize;
    eng.send("position startpos");
    for r in 0..rounds {
        let burst = 1 + (bursts[r % bursts.len()] as usize % 48);
        let mut text = String::from("go depth 1\n");
        for _ in 0..burst {
            text.push_str("isready\n");
        }
        eng.send_raw(text.as_bytes());
        sent_ready += burst;
        rep.eval(1);
        // the bestmove of this round
        let ev = eng.wait_for(Duration::from_secs(5), |e| is_best(e) || e.eof);
        if !matches!(&ev, Some(e) if is_best(e)) {
            eng.settle(Duration::from_millis(50));
            let garbled: Vec<String> = eng.stdout_lines().iter().filter(|e| e.line.contains("bestmove") && !e.line.starts_with("bestmove")).map(|e| e.line.clone()).take(2).collect();
            let cpu = eng.cpu_ms();
            let sv = if garbled.is_empty() && eng.starved(cpu, Duration::from_secs(5)) { "/starved" } else { "" };
            return Err(Violation::new(
                "one-bestmove",
                &format!("one-bestmove/isready-storm{sv}"),
                format!("isready storm round {}: 'go depth 1' followed by {burst} isready lines got no bestmove LINE within 5 s{}", r + 1, if garbled.is_empty() { String::new() } else { format!(" (but there is output in which a bestmove is glued to something else: {garbled:?})") }),
                json!({"isready_storm": rounds, "transcript": eng.transcript(16)}),
            ));
        }
    }
    if !eng.ready(Duration::from_secs(5)) {
        rep.class("isready-storm:last-readyok-missing");
    }
    sent_ready += 1;
    eng.settle(Duration::from_millis(100));
    let got_ready = eng.stdout_lines().iter().filter(|e| e.line.trim() == "readyok").count() - base_ready;
    let odd: Vec<String> = eng.stdout_lines().iter().filter(|e| !e.line.starts_with("info") && !e.line.starts_with("bestmove") && e.line.trim() != "readyok" && !e.line.trim().is_empty()).map(|e| e.line.clone()).take(3).collect();
    if !odd.is_empty() || got_ready != sent_ready {
        return Err(Violation::new(
            "not-dropped",
            "not-dropped/isready-storm",
            format!("isready storm: {sent_ready} isready lines sent, {got_ready} readyok lines received; lines that are neither info, bestmove nor readyok: {odd:?}"),
            json!({"isready_storm": rounds, "transcript": eng.transcript(16)}),
        ));
    }
    rep.class("isready-storm(go depth 1 + burst of isready)");
    rep.nontrivial(o::hash_str(&format!("isready-storm-{rounds}-{}", bursts.first().copied().unwrap_or(0))));
    eng.send("quit");
    let _ = eng.wait_exit(Duration::from_secs(2));
    Ok(())
}

pub fn run(ctx: &Ctx) -> Report {
    if ctx.shard.is_none() {
        return run_sharded(ctx, SHARDS, SHARDS);
    }
    let mut rep = Report::new();
    let corp = corpus::load(&ctx.verif);
    for (i, s) in fixed_schedules().iter().enumerate() {
        if i % ctx.shard_count() != ctx.shard_index() {
            continue;
        }
        rep.class("fixed-schedule");
        if let Err(v) = run_sched(ctx, s, &mut rep) {
            if let Some(k) = ctx.is_known(&v.sig) {
                rep.known(&v.sig, &k.text);
            } else {
                rep.violation(v);
            }
        }
    }
    // isready storms
    let istorms = ctx.tier.pick(8, 160) / ctx.shard_count() as u32;
    run_prop(ctx, "c10-isready-storm", istorms.max(1), 4, proptest::collection::vec(any::<u16>(), 16), &mut rep, |bursts, rep| {
        let mut starved = 0;
        loop {
            match isready_storm(ctx, 250, bursts, rep) {
                Err(v) if v.sig.ends_with("/starved") => {
                    starved += 1;
                    if starved >= 3 {
                        rep.infra_errors.push(format!("inconclusive: the engine process was starved of CPU in three attempts ({})", v.detail));
                        return Ok(());
                    }
                }
                other => return other,
            }
        }
    });
    // stop storms: 60-round plans
    let storms = ctx.tier.pick(16, 320) / ctx.shard_count() as u32;
    let plan = proptest::collection::vec((any::<u16>(), any::<u16>(), any::<u16>()), 60);
    run_prop(ctx, "c10-storm", storms, 12, plan, &mut rep, |plan, rep| {
        rep.class("stop-storm(60 rounds)");
        stop_storm(ctx, plan, &corp, rep)
    });
    let cases = ctx.tier.pick(72, 2400) / ctx.shard_count() as u32;
    run_prop(ctx, "c10", cases, 12, strategy(), &mut rep, |c, rep| {
        let Some(s) = build(c, &corp) else { return Ok(()) };
        rep.class(&format!("window:{}", s.window));
        run_sched(ctx, &s, rep)
    });
    rep
}

pub fn replay(ctx: &Ctx, case: &Value) -> Report {
    let mut rep = Report::new();
    if let Some(n) = case["isready_storm"].as_u64() {
        for k in 0..6u16 {
            if let Err(v) = isready_storm(ctx, n as usize, &[k * 7 + 1, 40, 3, 17, 47, 9], &mut rep) {
                rep.violation(v);
                break;
            }
        }
        return rep;
    }
    if let Some(storm) = case["storm"].as_array() {
        // a storm is a race: repeat the recorded rounds several times
        for _ in 0..20 {
            let mut eng = match Engine::spawn(&ctx.engine, &[]) {
                Ok(e) => e,
                Err(_) => break,
            };
            if !eng.ready(Duration::from_secs(10)) {
                break;
            }
            for r in storm {
                let fen = r["fen"].as_str().unwrap_or("");
                let go = r["go"].as_str().unwrap_or("go infinite");
                eng.send(&format!("position fen {fen}"));
                eng.send(go);
                let us = r["delay_us"].as_u64().unwrap_or(0);
                if us > 0 {
                    std::thread::sleep(Duration::from_micros(us));
                }
                eng.send("stop");
                rep.eval(1);
                let ev = eng.wait_for(Duration::from_secs(2), |e| is_best(e) || e.eof);
                if !matches!(&ev, Some(e) if is_best(e)) {
                    rep.violation(Violation::new("one-bestmove", "one-bestmove/stop-lost-or-late/storm/replay", format!("'{go}' at {fen}: no bestmove within 2 s of stop"), case.clone()));
                    return rep;
                }
            }
        }
        return rep;
    }
    let rounds: Vec<Round> = case["rounds"]
        .as_array()
        .map(|a| {
            a.iter()
                .map(|r| Round {
                    position: r["position"].as_str().unwrap_or("position startpos").into(),
                    fen: r["fen"].as_str().unwrap_or("").into(),
                    go: r["go"].as_str().unwrap_or("go depth 1").into(),
                    trigger: r["trigger"].as_str().unwrap_or("none").into(),
                    action: r["action"].as_str().unwrap_or("none").into(),
                })
                .collect()
        })
        .unwrap_or_default();
    let s = Sched { window: case["window"].as_str().unwrap_or("search:enter").into(), sleep_ms: case["sleep_ms"].as_u64().unwrap_or(150), rounds };
    // a race needs its window: repeat the schedule a few times
    for _ in 0..3 {
        if let Err(v) = run_sched(ctx, &s, &mut rep) {
            rep.violation(v);
            break;
        }
    }
    rep
}

pub const LEVEL: &str = "exploration";
pub const RULE: &str = "schedules against the real engine binary built with the cfg(rce_verif) schedule points: one labelled point (search:enter, search:armed, search:iter1, search:pre_best, search:post_best, uci:spawned) holds its window open for 50/150/300 ms, all points are traced; 1..3 rounds of (position, go {infinite | movetime 300 | nodes N | depth 3 | clocks}, trigger {when a label is seen | when the bestmove is seen | plain delay 0/5/50 ms | none}, action {stop | isready | position | ucinewgame | none}); the GUI side stays protocol-conformant (a new go only after the previous bestmove). Occasionally the first go of a round is followed by a second go while the search still runs (its own fate is not judged; the stop after it must work) and a round may search a finished game (exactly one bestmove line, content not judged). Plus 10 fixed schedules for the interleavings the statement names, and stop storms: 60-round plans of (position incl. capture-saturated 5-9-queen constructions, go {infinite | movetime | nodes | clocks | depth 60}, stop after a generated delay of 0..30 ms) on one engine with no window forced, bestmove due within 2 s of each stop. Windows are 50-300 ms and, in a quarter of the schedules, 800 or 1500 ms (longer than any bounded wait an engine might apply to its previous search thread); one round in six searches a root whose search may take a shortcut (a single legal move, bare kings, a fifty-move clock at 99/100, a threefold repetition), and fixed schedules send the next go right after such a search's bestmove. Isready storms (250 rounds of 'go depth 1' immediately followed by 1-48 isready lines, on one engine): every go gets its own intact bestmove line, every isready its own readyok line, nothing else appears on stdout. At the end of every schedule the engine must be idle (less than 250 ms of CPU in 400 ms): a search nobody can stop any more shows there. Oracle: every go => exactly one bestmove, legal in the position current when that go was sent; after stop the bestmove arrives within 2 s + injected sleeps; every isready => readyok within 3 s + sleeps; no go of a conformant script is refused. Non-trivial = the realised trace shows a command sent directly after the forced window's label (i.e. inside the window); distinct by realised order of labels, commands and bestmoves.";
pub const ASSUMPTIONS: &[&str] = &[
    "the labelled schedule points are the events the property names; orders that need a window at an unlabelled point are not reached",
    "all deadlines include the injected sleeps and a missing answer is a failure under any timing, so forcing a window cannot create a false alarm",
    "4 engines at a time, so the harness's own load does not threaten the deadlines",
];
