//! C17 - the static evaluation is colour-symmetric (metamorphic check).

use super::frame::*;
use super::oracle::{self as o, Game, Pos};
use super::{corpus, eng, gen};
use crate::board::Board;
use crate::evaluate::simple_evaluator::SimpleEvaluator;
use crate::evaluate::Evaluator;
use serde_json::{json, Value};

pub fn eval_of(p: &Pos) -> Result<i16, String> {
    let fen = p.to_fen();
    guard(|| {
        let mut b = Board::from_fen(&fen);
        SimpleEvaluator.evaluate(&mut b)
    })
}

pub fn check_pos(p: &Pos, rep: &mut Report) -> Result<(), Violation> {
    rep.eval(1);
    let case = json!({"fen": p.to_fen()});
    let e = eval_of(p).map_err(|pm| Violation::new("mirror", &format!("mirror/panic/{}", panic_site(&pm)), format!("evaluate panicked on {}: {pm}", p.to_fen()), case.clone()))?;
    let m = p.mirror();
    let em = eval_of(&m).map_err(|pm| Violation::new("mirror", &format!("mirror/panic/{}", panic_site(&pm)), format!("evaluate panicked on {}: {pm}", m.to_fen()), case.clone()))?;
    if e != 0 {
        rep.nontrivial(p.pos_id().fp64());
    }
    // which piece kinds are unbalanced (signature + histogram)
    let mut unb = vec![];
    for (t, name) in [(o::P, "pawn"), (o::N, "knight"), (o::B, "bishop"), (o::R, "rook"), (o::Q, "queen")] {
        let w = p.sq.iter().filter(|&&c| c == o::mk(true, t)).count();
        let b = p.sq.iter().filter(|&&c| c == o::mk(false, t)).count();
        if w != b {
            unb.push(name);
            rep.class(&format!("imbalance:{name}"));
        }
    }
    if e != em {
        return Err(Violation::new("mirror", &format!("mirror/{}", unb.join("+")), format!("eval({}) = {e} but eval(mirror = {}) = {em}", p.to_fen(), m.to_fen()), case));
    }
    // side swap: same placement, other side to move (only when that is a valid position)
    let mut s = p.clone();
    s.wtm = !s.wtm;
    s.ep = None;
    if s.is_valid_start().is_ok() {
        rep.class("side-swap:checked");
        let es = eval_of(&s).map_err(|pm| Violation::new("side-swap", &format!("side-swap/panic/{}", panic_site(&pm)), format!("evaluate panicked on {}: {pm}", s.to_fen()), case.clone()))?;
        if es != -e {
            return Err(Violation::new("side-swap", &format!("side-swap/{}", unb.join("+")), format!("eval({}) = {e} but eval(other side to move) = {es}, expected {}", p.to_fen(), -e), case));
        }
    } else {
        rep.class("side-swap:skipped-invalid");
    }
    Ok(())
}

pub const SHARDS: usize = 8;

pub fn run(ctx: &Ctx) -> Report {
    if ctx.shard.is_none() {
        // RCE_FUZZ_ONLY=1: only the campaign (used when measuring what the fuzzer finds alone)
        let mut rep = if std::env::var_os("RCE_FUZZ_ONLY").is_some() { Report::new() } else { run_sharded(ctx, SHARDS, SHARDS) };
        if ctx.tier == Tier::Thorough {
            super::fuzzsearch::campaign(ctx, "C17", &mut rep);
        }
        return rep;
    }
    let mut rep = Report::new();
    let corp = corpus::load(&ctx.verif);
    if ctx.shard_index() == 0 {
        for p in &corp.positions {
            rep.class("source:corpus");
            if let Err(v) = check_pos(p, &mut rep) {
                rep.violation(v);
            }
        }
    }
    let cases = ctx.tier.pick(800_000, 12_000_000) / ctx.shard_count() as u32;
    run_prop(ctx, "c17-synth", cases, 3000, gen::synth_strategy(), &mut rep, |ent, rep| {
        let Some(p) = gen::synth_pos(&mut Entropy::new(ent)) else {
            rep.class("synth:rejected");
            return Ok(());
        };
        rep.class("source:synth");
        rep.sample(|| json!({"fen": p.to_fen()}));
        check_pos(&p, rep)
    });
    let games = ctx.tier.pick(8000, 200_000) / ctx.shard_count() as u32;
    run_prop(ctx, "c17-games", games, 2000, gen::game_strategy(80), &mut rep, |case, rep| {
        let Some((start, _)) = gen::start_pos(&case.start, &corp, gen::MIX_DEFAULT) else { return Ok(()) };
        let start_fen = start.to_fen();
        let mut live = guard(|| Board::from_fen(&start_fen)).ok();
        if let Some(b) = live.as_mut() {
            let _ = guard(|| SimpleEvaluator.evaluate(b)); // the board has been evaluated before anything is played
        }
        let mut game = Game::new(start);
        for (i, &c) in case.choices.iter().enumerate() {
            let legal = game.cur.legal_moves();
            if legal.is_empty() {
                break;
            }
            let m = gen::choose_move(&game, &legal, case.weighted, c);
            if let Some(b) = live.as_mut() {
                match eng::find_ply(b, &m.uci()) {
                    Some(ply) => {
                        // now and then: make, evaluate, take back, evaluate again, then really play
                        if i % 5 == 2 {
                            let _ = guard(|| {
                                b.make_move(ply);
                                let _ = SimpleEvaluator.evaluate(b);
                                b.unmake_move();
                                let _ = SimpleEvaluator.evaluate(b);
                            });
                        }
                        if guard(|| b.make_move(ply)).is_err() {
                            live = None;
                        }
                    }
                    None => live = None,
                }
            }
            game.play(m);
            rep.class("source:game");
            check_pos(&game.cur, rep)?;
            // the same position as reached by play on a live board that was evaluated along the
            // way must evaluate like the freshly loaded one
            if let Some(b) = live.as_mut() {
                let fresh = eval_of(&game.cur);
                let got = guard(|| SimpleEvaluator.evaluate(b));
                rep.eval(1);
                if let (Ok(f), Ok(g)) = (&fresh, &got) {
                    if f != g {
                        let mk = super::c01::move_kind(&m);
                        return Err(Violation::new(
                            "mirror",
                            &format!("mirror/played-board/{mk}"),
                            format!("position {} evaluates to {g} on the board reached by play [{}] but to {f} when loaded afresh (and so differs from its mirror image's evaluation)", game.cur.to_fen(), game.moves_uci().join(" ")),
                            json!({"start_fen": start_fen, "moves": game.moves_uci()}),
                        ));
                    }
                }
                rep.class("played-board-vs-fresh");
            }
        }
        Ok(())
    });
    rep
}

pub fn replay(_ctx: &Ctx, case: &Value) -> Report {
    let mut rep = Report::new();
    if let Some(sf) = case["start_fen"].as_str() {
        // a played-board case: replay the moves on a live board, evaluating along the way
        let moves: Vec<String> = case["moves"].as_array().map(|a| a.iter().filter_map(|x| x.as_str().map(String::from)).collect()).unwrap_or_default();
        let (Ok(start), Ok(mut b)) = (Pos::from_fen(sf), guard(|| Board::from_fen(sf))) else {
            rep.infra_errors.push("bad replay".into());
            return rep;
        };
        let _ = guard(|| SimpleEvaluator.evaluate(&mut b));
        let mut game = Game::new(start);
        for (i, u) in moves.iter().enumerate() {
            let (Some(m), Some(ply)) = (game.cur.find_legal(u), eng::find_ply(&b, u)) else { break };
            if i % 5 == 2 {
                let _ = guard(|| {
                    b.make_move(ply);
                    let _ = SimpleEvaluator.evaluate(&mut b);
                    b.unmake_move();
                    let _ = SimpleEvaluator.evaluate(&mut b);
                });
            }
            b.make_move(ply);
            game.play(m);
            rep.eval(1);
            if let (Ok(f), Ok(g)) = (eval_of(&game.cur), guard(|| SimpleEvaluator.evaluate(&mut b))) {
                if f != g {
                    rep.violation(Violation::new("mirror", "mirror/played-board/replay", format!("{} evaluates to {g} on the played board, {f} when loaded afresh", game.cur.to_fen()), case.clone()));
                    return rep;
                }
            }
        }
        return rep;
    }
    match Pos::from_fen(case["fen"].as_str().unwrap_or("")) {
        Ok(p) => {
            if let Err(v) = check_pos(&p, &mut rep) {
                rep.violation(v);
            }
        }
        Err(e) => rep.infra_errors.push(e),
    }
    rep
}

pub const LEVEL: &str = "exploration";
pub const RULE: &str = "positions = synthesised positions with independent material per side (so evaluations are rarely 0), every position of generated games (also evaluated on the live board reached by play, which was evaluated along the way and after take-backs, and must agree with the freshly loaded position), and the corpus. Metamorphic oracle: eval(P) == eval(mirror(P)) (ranks flipped, colours, side to move and castling letters swapped) and eval(P) == -eval(P with the other side to move) whenever that twin is itself a valid position (skipped cases counted). Non-trivial = eval != 0; distinct by position identity.";
pub const ASSUMPTIONS: &[&str] = &["positions are set up through Board::from_fen (C07's subject)", "mirror() is the oracle's; material stays within legal bounds so the evaluator's saturating arithmetic is never reached"];
