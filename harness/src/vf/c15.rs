//! C15 - no input line can kill or wedge the engine; quit and end-of-input end it.
//!
//! Real engine process, grammar-based sessions: the UCI vocabulary with arguments
//! dropped, duplicated, reordered or replaced by junk, in any order; then either
//! `isready` + `quit`, or end-of-input after any line.

use super::frame::*;
use super::oracle::{self as o, Game, Pos};
use super::uciproc::{self, Engine, Stream};
use super::{corpus, gen};
use proptest::prelude::*;
use serde_json::{json, Value};
use std::time::Duration;

pub const JUNK: [&str; 22] = ["10000000000000000000000", "340282366920938463463374607431768211455", "170141183460469231731687303715884105728", "e\u{e9}4", "e2e\u{e9}", "\u{ff12}\u{ff14}", "-1", "1e3", "0x10", "1234567890123456789012345678901234567890", "abc", "", "3.5", "+7", "18446744073709551616", "256", "NaN", "١٢٣", "né", "\u{1F600}", "0000000000000000000000000000000000000005", "-0"];
const GO_KEYS: [&str; 7] = ["wtime", "btime", "winc", "binc", "depth", "nodes", "movetime"];
const GO_FLAGS: [&str; 5] = ["searchmoves", "ponder", "movestogo", "mate", "infinite"];

fn small_value(key: &str, e: &mut Entropy) -> String {
    match key {
        "depth" => (1 + e.pick(3)).to_string(),
        "nodes" => [1u64, 10, 200, 3000, 20_000][e.pick(5)].to_string(),
        "movetime" => [0u64, 1, 10, 50, 100][e.pick(5)].to_string(),
        "wtime" | "btime" => [0u64, 1, 50, 400, 1000][e.pick(5)].to_string(),
        _ => [0u64, 1, 10, 100][e.pick(4)].to_string(),
    }
}

/// One generated input line and the malformation classes it carries.
pub fn gen_line(e: &mut Entropy, corp: &corpus::Corpus) -> (String, Vec<&'static str>) {
    let mut cl: Vec<&'static str> = vec![];
    let kind = e.pick(24);
    let line = match kind {
        0 => "uci".to_string(),
        1 => "isready".to_string(),
        2 => "ucinewgame".to_string(),
        3 => "stop".to_string(),
        4 | 5 => {
            // well-formed position
            let mut s = if e.pick(2) == 0 || corp.len() == 0 { "position startpos".to_string() } else { format!("position fen {}", corp.fens[e.pick(corp.len())]) };
            if s == "position startpos" && e.pick(2) == 0 {
                let mut g = Game::new(Pos::startpos());
                let n = e.pick(9);
                let mut ms = vec![];
                for _ in 0..n {
                    let l = g.cur.legal_moves();
                    if l.is_empty() {
                        break;
                    }
                    let m = l[e.pick(l.len())];
                    ms.push(m.uci());
                    g.play(m);
                }
                if !ms.is_empty() {
                    s.push_str(" moves ");
                    s.push_str(&ms.join(" "));
                }
            }
            s
        }
        6 | 7 => {
            // well-formed, self-terminating go
            let mut s = "go".to_string();
            let k = GO_KEYS[4 + e.pick(3)];
            s.push_str(&format!(" {k} {}", small_value(k, e)));
            if e.pick(3) == 0 {
                let k2 = GO_KEYS[e.pick(4)];
                s.push_str(&format!(" {k2} {}", small_value(k2, e)));
            }
            s
        }
        8 => {
            cl.push("go:value-dropped");
            let k = GO_KEYS[e.pick(GO_KEYS.len())];
            if e.pick(2) == 0 {
                format!("go {k}")
            } else {
                let k0 = GO_KEYS[4 + e.pick(3)];
                format!("go {k0} {} {k}", small_value(k0, e))
            }
        }
        9 => {
            cl.push("go:keyword-duplicated");
            let k = GO_KEYS[e.pick(GO_KEYS.len())];
            match e.pick(3) {
                0 => format!("go {k} {k} {}", small_value(k, e)),
                1 => format!("go {k} {} {k} {}", small_value(k, e), small_value(k, e)),
                _ => format!("go {k} {k}"),
            }
        }
        10 => {
            cl.push("go:reordered");
            let k = GO_KEYS[e.pick(GO_KEYS.len())];
            match e.pick(2) {
                0 => format!("go {} {k}", small_value(k, e)),
                _ => format!("go {} {k} nodes 100", small_value(k, e)),
            }
        }
        11 | 12 => {
            cl.push("go:junk-value");
            let k = GO_KEYS[e.pick(GO_KEYS.len())];
            let j = JUNK[e.pick(JUNK.len())];
            if e.pick(2) == 0 {
                format!("go {k} {j}")
            } else {
                format!("go nodes 50 {k} {j} movetime 20")
            }
        }
        13 => {
            cl.push("go:flags");
            let f = GO_FLAGS[e.pick(GO_FLAGS.len())];
            match e.pick(5) {
                0 => format!("go {f}"),
                1 => format!("go {f} e2e4 nodes 100"),
                2 => format!("go nodes 100 {f}"),
                // a flag followed by junk, or by moves and then junk
                3 => format!("go nodes 100 {f} {}", JUNK[e.pick(JUNK.len())]),
                _ => format!("go nodes 100 {f} e2e4 g1f3 {} depth 2", JUNK[e.pick(JUNK.len())]),
            }
        }
        14 | 15 => {
            cl.push("setoption");
            const S: [&str; 16] = [
                "setoption",
                "setoption name",
                "setoption name Hash",
                "setoption name Hash value 1",
                "setoption name value x",
                "setoption value 3 name Hash",
                "setoption name Hash value",
                "setoption name name value value",
                "setoption Hash 3",
                "setoption value",
                "setoption value name",
                "setoption name Move Overhead value 10",
                "setoption name value",
                "setoption value 1 value 2 name a name b",
                "setoption name  value  ",
                "setoption NAME Hash VALUE 1",
            ];
            S[e.pick(S.len())].to_string()
        }
        16 | 17 => {
            cl.push("position:malformed");
            const P: [&str; 16] = [
                "position",
                "position foo",
                "position startpos e2e4",
                "position startpos moves",
                "position startpos moves e2e5",
                "position startpos moves e2e4 e2e4",
                "position startpos moves e7e5",
                "position startpos moves 0000",
                "position startpos moves O-O",
                "position startpos moves e2",
                "position startpos moves e2e9",
                "position startpos moves z9z9 \u{00e9}2\u{00e9}4",
                "position fen",
                "position fen moves e2e4",
                "position startpos moves E2E4",
                "position startpos fen",
            ];
            P[e.pick(P.len())].to_string()
        }
        18 if e.pick(3) == 0 => {
            // a valid FEN in its 4-field form (from_fen accepts it with default counters)
            cl.push("position:4-field-fen");
            let fen = if corp.len() == 0 { Pos::startpos().to_fen4() } else { corp.positions[e.pick(corp.len())].to_fen4() };
            match e.pick(3) {
                0 => format!("position fen {fen}"),
                1 => format!("position fen {fen} moves"),
                _ => {
                    let p = Pos::from_fen(&fen).unwrap();
                    let l = p.legal_moves();
                    if l.is_empty() {
                        format!("position fen {fen} moves a1a1")
                    } else {
                        format!("position fen {fen} moves {}", l[e.pick(l.len())].uci())
                    }
                }
            }
        }
        18 => {
            cl.push("position:fen-then-bad-moves");
            let fen = if corp.len() == 0 { Pos::startpos().to_fen() } else { corp.fens[e.pick(corp.len())].clone() };
            match e.pick(4) {
                0 => format!("position fen {fen} moves"),
                1 => format!("position fen {fen} moves a1a1"),
                2 => format!("position fen {fen} e2e4"),
                _ => format!("position fen {fen} moves {}", JUNK[e.pick(JUNK.len())]),
            }
        }
        19 => {
            cl.push("unknown-word");
            ["xyzzy", "go!", "Position startpos", "ISREADY", "stopp", "\u{feff}uci", "uci uci uci", "ucinewgame extra", "debug on", "ponderhit", "register later"][e.pick(11)].to_string()
        }
        20 if e.pick(2) == 0 => {
            // resolved by the session builder: the most recent position command re-sent with
            // fewer (a strict beginning) or more moves
            cl.push("position:previous-resent-shorter-or-longer");
            format!("@@RESEND@@ {}", e.pick(6))
        }
        20 => {
            cl.push("empty-or-blank");
            ["", " ", "\t", "   \t  ", "\r"][e.pick(5)].to_string()
        }
        21 => {
            cl.push("over-long");
            match e.pick(3) {
                0 => format!("go {}", "depth 1 ".repeat(1300)),
                1 => format!("position startpos moves {}", "e2e4 ".repeat(2000)),
                _ => "x".repeat(10_000),
            }
        }
        22 => {
            cl.push("tabs-and-spaces");
            ["go\tdepth\t1", "  isready  ", "position\tstartpos", "go  nodes   10", "\tuci"][e.pick(5)].to_string()
        }
        _ => {
            cl.push("non-ascii");
            ["go depth ２", "setoption name Hash value \u{1F600}", "position startpos moves е2е4", "üci", "go nodes ٣"][e.pick(5)].to_string()
        }
    };
    (line, cl)
}

#[derive(Clone, Debug)]
pub struct Case {
    pub lines: Vec<Vec<u16>>,
    /// 0 = isready + quit; otherwise close stdin after line (ending-1) % (len+1)
    pub ending: u8,
}

pub fn strategy() -> impl Strategy<Value = Case> {
    (proptest::collection::vec(proptest::collection::vec(any::<u16>(), 12), 1..=25), 0u8..8).prop_map(|(lines, ending)| Case { lines, ending })
}

pub fn main_thread_panicked(eng: &Engine) -> Option<String> {
    eng.stderr_lines().iter().find(|e| uciproc::is_panic_line(&e.line) && uciproc::panic_thread(&e.line).as_deref() == Some("main")).map(|e| e.line.clone())
}

/// lines: the text lines to send; eof_after: Some(j) = close stdin after j lines and
/// expect exit; None = send all, `stop`, `isready`, then `quit`.
static TIMEOUT_CONFIRMED: std::sync::atomic::AtomicBool = std::sync::atomic::AtomicBool::new(false);

pub fn run_session(ctx: &Ctx, lines: &[String], eof_after: Option<usize>, raw_tail: Option<&[u8]>, rep: &mut Report) -> Result<(), Violation> {
    match run_session_once(ctx, lines, eof_after, raw_tail, rep, Duration::from_secs(3)) {
        Ok(()) => Ok(()),
        Err(v) => {
            // A verdict that rests on nothing but the 3 s allowance (engine alive, silent, no
            // panic, no flood) is confirmed before it is reported: the same session is run again,
            // twice, with 20 s.  A real wedge is still there; a process that was merely starved
            // of CPU for 3 s on a loaded machine is not.
            let pure_timeout = v.sig == "quit/no-exit" || v.sig == "eof/no-exit/hung" || v.sig.starts_with("survive/hung/");
            // once one such verdict has been confirmed in this process, later ones (shrinking re-runs
            // the failing session dozens of times) are taken at face value
            if !pure_timeout || TIMEOUT_CONFIRMED.load(std::sync::atomic::Ordering::Relaxed) {
                return Err(v);
            }
            let mut last = v;
            for _ in 0..2 {
                let mut scratch = Report::new();
                match run_session_once(ctx, lines, eof_after, raw_tail, &mut scratch, Duration::from_secs(20)) {
                    Ok(()) => {
                        rep.class("timeout-not-reproduced-with-20s-allowance(machine load; not a violation)");
                        return Ok(());
                    }
                    Err(v2) => last = v2,
                }
            }
            if !uciproc::harness_overloaded() {
                TIMEOUT_CONFIRMED.store(true, std::sync::atomic::Ordering::Relaxed);
            }
            if uciproc::harness_overloaded() {
                rep.infra_errors.push(format!("inconclusive: {} - but this process itself is being kept from running (machine overloaded)", last.detail));
                return Ok(());
            }
            Err(last)
        }
    }
}

fn run_session_once(ctx: &Ctx, lines: &[String], eof_after: Option<usize>, raw_tail: Option<&[u8]>, rep: &mut Report, allow: Duration) -> Result<(), Violation> {
    let mut eng = match Engine::spawn(&ctx.engine, &[]) {
        Ok(e) => e,
        Err(e) => {
            rep.infra_errors.push(format!("cannot spawn engine: {e}"));
            return Ok(());
        }
    };
    let shown: Vec<String> = lines.iter().map(|l| if l.len() > 300 { format!("{}...<{} bytes>", &l.chars().take(120).collect::<String>(), l.len()) } else { l.clone() }).collect();
    let replay = json!({"lines": lines, "eof_after": eof_after, "raw_tail_hex": raw_tail.map(|b| b.iter().map(|x| format!("{x:02x}")).collect::<String>())});
    let fail = |clause: &str, sig: String, detail: String, eng: &Engine| -> Violation {
        let mut r = replay.clone();
        r["transcript"] = json!(eng.transcript(30));
        Violation::new(clause, &sig, detail, r)
    };
    rep.eval(1);
    let n_send = eof_after.unwrap_or(lines.len()).min(lines.len());
    let mut last_cmd = String::new();
    for l in &lines[..n_send] {
        if !eng.send(l) {
            break; // the engine closed its stdin: judged below
        }
        last_cmd = l.split_whitespace().take(2).collect::<Vec<_>>().join(" ");
    }
    if let Some(tail) = raw_tail {
        eng.send_raw(tail);
    }
    let cmd_class = |s: &str| -> String {
        let w: Vec<&str> = s.split_whitespace().collect();
        match w.first() {
            Some(&"go") => format!("go-{}", w.get(1).copied().unwrap_or("")),
            Some(&"setoption") => "setoption".into(),
            Some(&"position") => "position".into(),
            Some(x) => x.chars().take(12).collect(),
            None => "blank".into(),
        }
    };
    if eof_after.is_some() {
        eng.close_stdin();
        match eng.wait_exit(allow) {
            Some(_) => {}
            None => {
                let spinning = eng.stderr_bytes > 100_000;
                return Err(fail("eof", format!("eof/no-exit/{}", if spinning { "spinning" } else { "hung" }), format!("stdin closed after {:?}: the engine did not terminate within {} s ({} bytes on stderr)", shown.get(n_send.wrapping_sub(1)), allow.as_secs(), eng.stderr_bytes), &eng));
            }
        }
        if let Some(p) = main_thread_panicked(&eng) {
            // it did exit, but by crashing on some earlier line
            return Err(fail("survive", format!("survive/main-panic/{}", cmd_class(&last_cmd)), format!("the main thread panicked before end-of-input: {p}"), &eng));
        }
        return Ok(());
    }
    // a GUI would stop a running search before asking for readiness; liveness is asserted either way
    eng.send("stop");
    let ok = eng.ready(allow);
    if !ok {
        let died = eng.try_status();
        let mp = main_thread_panicked(&eng);
        let culprit = {
            // the last line sent before the first main-thread panic message / death
            cmd_class(&last_cmd)
        };
        let what = match (&mp, died) {
            (Some(p), _) => format!("main thread panicked: {p}"),
            (None, Some(st)) => format!("engine exited with {st}"),
            _ => "engine alive but silent".to_string(),
        };
        let kind = if mp.is_some() { "main-panic" } else if died.is_some() { "exited" } else { "hung" };
        return Err(fail("survive", format!("survive/{kind}/{culprit}"), format!("after the session no readyok within {} s: {what}", allow.as_secs()), &eng));
    }
    if let Some(p) = main_thread_panicked(&eng) {
        return Err(fail("survive", format!("survive/main-panic/{}", cmd_class(&last_cmd)), format!("main thread panicked: {p}"), &eng));
    }
    eng.send("quit");
    match eng.wait_exit(allow) {
        Some(st) => {
            if !st.success() {
                return Err(fail("quit", "quit/nonzero-status".into(), format!("quit ended the engine with {st}"), &eng));
            }
        }
        None => return Err(fail("quit", "quit/no-exit".into(), format!("quit did not terminate the engine within {} s", allow.as_secs()), &eng)),
    }
    Ok(())
}

/// One engine process is sent `total_bytes` of valid position commands (growing games of up to
/// 200 plies), an isready every 40 lines (each must be answered), then quit.
pub fn volume_session(ctx: &Ctx, total_bytes: usize, rep: &mut Report) -> Result<(), Violation> {
    let mut eng = match Engine::spawn(&ctx.engine, &[]) {
        Ok(e) => e,
        Err(e) => {
            rep.infra_errors.push(format!("cannot spawn engine: {e}"));
            return Ok(());
        }
    };
    rep.eval(1);
    rep.class("volume:megabytes-of-valid-input-in-one-session");
    rep.nontrivial(o::hash_str(&format!("volume-{total_bytes}")));
    let replay = json!({"volume_bytes": total_bytes});
    let mut sent = 0usize;
    let mut lines = 0usize;
    let mut game = Game::new(Pos::startpos());
    let mut h = 0x9e37u64;
    while sent < total_bytes {
        let legal = game.cur.legal_moves();
        if legal.is_empty() || game.moves.len() >= 200 {
            eng.send("ucinewgame");
            sent += 11;
            game = Game::new(Pos::startpos());
            continue;
        }
        h = o::hash_bytes(&h.to_le_bytes(), 7);
        game.play(legal[(h >> 16) as usize % legal.len()]);
        let cmd = format!("position startpos moves {}", game.moves_uci().join(" "));
        sent += cmd.len() + 1;
        if !eng.send(&cmd) {
            break;
        }
        lines += 1;
        if lines % 40 == 0 {
            sent += 8;
            let mut fine = eng.ready(Duration::from_secs(3));
            if !fine && main_thread_panicked(&eng).is_none() && eng.try_status().is_none() {
                fine = eng.wait_for(Duration::from_secs(20), |e| e.stream == Stream::Out && e.line.trim() == "readyok").is_some();
            }
            if !fine {
                let what = match (main_thread_panicked(&eng), eng.try_status()) {
                    (Some(p), _) => format!("main thread panicked: {p}"),
                    (None, Some(st)) => format!("engine exited with {st}"),
                    _ => "engine alive but silent for 23 s".to_string(),
                };
                let mut r = replay.clone();
                r["transcript"] = json!(eng.transcript(12).iter().map(|l| l.chars().take(160).collect::<String>()).collect::<Vec<_>>());
                return Err(Violation::new("survive", "survive/after-much-input", format!("after {sent} bytes of valid position commands in one session an isready was not answered: {what}"), r));
            }
        }
    }
    rep.class_n("volume:bytes-sent", sent as u64);
    eng.send("quit");
    if eng.wait_exit(Duration::from_secs(23)).is_none() {
        return Err(Violation::new("quit", "quit/no-exit/after-much-input", format!("after {sent} bytes of input quit did not terminate the engine within 23 s"), replay));
    }
    Ok(())
}

/// One long-lived engine process: `n` searches of 1.2 million nodes on quiet endgames, then one
/// line of every kind, each followed by isready; ended by quit or by end-of-input.
pub fn soak_session(ctx: &Ctx, corp: &corpus::Corpus, n: usize, end_quit: bool, rep: &mut Report) -> Result<(), Violation> {
    let quiet: Vec<&String> = corp.fens.iter().zip(corp.positions.iter()).filter(|(_, p)| p.material_count() <= 9 && p.legal_moves().len() >= 4 && !p.in_check(p.wtm)).map(|(f, _)| f).collect();
    if quiet.len() < 8 {
        return Ok(());
    }
    let mut eng = match Engine::spawn(&ctx.engine, &[]) {
        Ok(e) => e,
        Err(e) => {
            rep.infra_errors.push(format!("cannot spawn engine: {e}"));
            return Ok(());
        }
    };
    rep.eval(1);
    rep.class("soak:long-lived-process");
    rep.nontrivial(o::hash_str(&format!("soak-{n}-{end_quit}")));
    let replay = json!({"soak": n, "end_quit": end_quit});
    let fail = |clause: &str, sig: String, detail: String, eng: &Engine| -> Violation {
        let mut r = replay.clone();
        r["transcript"] = json!(eng.transcript(30));
        Violation::new(clause, &sig, detail, r)
    };
    for k in 0..n {
        eng.send(&format!("position fen {}", quiet[(k * 5 + end_quit as usize) % quiet.len()]));
        eng.send("go nodes 1200000");
        // searches are C09's subject: wait for the answer without judging it
        if eng.wait_for(Duration::from_secs(300), |e| (e.stream == Stream::Out && e.line.starts_with("bestmove")) || e.eof).map_or(true, |e| e.eof) {
            rep.class("soak:abandoned(no bestmove: C09's subject)");
            return Ok(());
        }
    }
    let after = ["ucinewgame", "setoption name Hash value 16", "position startpos moves e2e4", "xyzzy", "go nodes", "ucinewgame", "position fen 8/8/8/3k4/8/3K4/8/8 w - - 0 1", "stop", "uci"];
    for l in after {
        eng.send(l);
        let mut fine = eng.ready(Duration::from_secs(3));
        if !fine && main_thread_panicked(&eng).is_none() && eng.try_status().is_none() {
            // a pure-allowance verdict is confirmed with a long allowance (see run_session)
            fine = eng.wait_for(Duration::from_secs(20), |e| e.stream == Stream::Out && e.line.trim() == "readyok").is_some();
        }
        if !fine {
            let what = match (main_thread_panicked(&eng), eng.try_status()) {
                (Some(p), _) => format!("main thread panicked: {p}"),
                (None, Some(st)) => format!("engine exited with {st}"),
                _ => "engine alive but silent for 23 s".to_string(),
            };
            return Err(fail("survive", format!("survive/after-long-session/{}", l.split_whitespace().next().unwrap_or("")), format!("after {n} searches of 1.2 million nodes in one process, '{l}' was not followed by readyok: {what}"), &eng));
        }
    }
    if end_quit {
        eng.send("quit");
    } else {
        eng.close_stdin();
    }
    if eng.wait_exit(Duration::from_secs(23)).is_none() {
        return Err(fail("quit", "quit/no-exit/after-long-session".into(), format!("after {n} searches of 1.2 million nodes in one process the engine did not terminate within 23 s of {}", if end_quit { "quit" } else { "end-of-input" }), &eng));
    }
    Ok(())
}

pub const SHARDS: usize = 8;

/// Every single malformed shape on its own (so a shallow defect cannot hide the others),
/// then generated sessions.
pub fn run(ctx: &Ctx) -> Report {
    if ctx.shard.is_none() {
        // RCE_FUZZ_ONLY=1: only the campaign (used when measuring what the fuzzer finds alone)
        let mut rep = if std::env::var_os("RCE_FUZZ_ONLY").is_some() { Report::new() } else { run_sharded(ctx, SHARDS, SHARDS) };
        if ctx.tier == Tier::Thorough {
            super::fuzzuci::campaign(ctx, "C15", &mut rep);
        }
        return rep;
    }
    let mut rep = Report::new();
    let corp = corpus::load(&ctx.verif);
    let note = |r: Result<(), Violation>, rep: &mut Report| {
        if let Err(v) = r {
            if let Some(k) = ctx.is_known(&v.sig) {
                rep.known(&v.sig, &k.text);
            } else {
                rep.violation(v);
            }
        }
    };
    // soak: the command loop of a process that has searched for a long time (millions of nodes,
    // a cache with hundreds of thousands of entries) must still take every kind of line: after
    // the searches each line is followed by isready, the session ends with quit (shard 1) or
    // end-of-input (shard 2)
    if ctx.shard_index() == 1 || ctx.shard_index() == 2 {
        let r = soak_session(ctx, &corp, ctx.tier.pick(8usize, 80), ctx.shard_index() == 1, &mut rep);
        note(r, &mut rep);
    }
    // volume: one session that receives megabytes of perfectly ordinary lines (a GUI re-sending a
    // growing game, as in a long match), isready every 40 lines; no search is started
    if ctx.shard_index() == 3 {
        let r = volume_session(ctx, ctx.tier.pick(4usize, 64) << 20, &mut rep);
        note(r, &mut rep);
    }
    if ctx.shard_index() == 0 {
        for eof_at in [0usize, 1, 2] {
            let lines = vec!["isready".to_string(), "position startpos moves e2e4".to_string()];
            let r = run_session(ctx, &lines, Some(eof_at), None, &mut rep);
            rep.class("ending:eof");
            rep.nontrivial(o::hash_str(&format!("eof{eof_at}")));
            note(r, &mut rep);
        }
        // end-of-input in the middle of a line (no trailing newline)
        let r = run_session(ctx, &["isready".to_string()], Some(1), Some(b"go depth"), &mut rep);
        rep.class("ending:eof-mid-line");
        note(r, &mut rep);
        // bytes that are not valid UTF-8
        let r = run_session(ctx, &[], None, Some(b"setoption name \xff\xfe value \xc3\x28\nisready\n"), &mut rep);
        rep.class("line:invalid-utf8");
        rep.nontrivial(o::hash_str("invalid-utf8"));
        note(r, &mut rep);
    }
    // in-process layer (hook H4 runs the same parser/executor as uci_loop): token soups that
    // never start a search are fed to a session object; a panic would have killed the main
    // thread of the real engine
    {
        use crate::uci::verif::Session;
        const VOCAB: [&str; 40] = [
            "uci", "isready", "ucinewgame", "setoption", "name", "value", "position", "startpos", "fen", "moves", "stop", "Hash", "Threads", "Move", "Overhead", "e2e4", "e7e5", "e1g1", "a7a8q", "0000", "1", "-1",
            "", "xyz", "NAME", "Value", "moves", "name", "value", "rnbqkbnr/pppppppp/8/8/8/8/PPPPPPPP/RNBQKBNR", "w", "b", "KQkq", "-", "0", "1", "e3", "\u{e9}", "go", "quit",
        ];
        let cases = ctx.tier.pick(40_000, 600_000) / ctx.shard_count() as u32;
        let strat = proptest::collection::vec(proptest::collection::vec(0usize..VOCAB.len(), 1..10), 1..6);
        run_prop(ctx, "c15-inproc", cases, 2000, strat, &mut rep, |lines, rep| {
            let mut sess = Session::new();
            let mut sent: Vec<String> = vec![];
            for toks in lines {
                let mut words: Vec<&str> = toks.iter().map(|&i| VOCAB[i]).collect();
                // never start a search in-process, never quit, and FEN arguments must be valid:
                // a 'fen' keyword is always followed by a complete valid FEN
                if matches!(words.first(), Some(&"go") | Some(&"quit")) {
                    words[0] = "stop";
                }
                let mut line = String::new();
                for w in &words {
                    if *w == "fen" {
                        line.push_str("fen rnbqkbnr/pppppppp/8/8/8/8/PPPPPPPP/RNBQKBNR w KQkq - 0 1 ");
                    } else {
                        line.push_str(w);
                        line.push(' ');
                    }
                }
                sent.push(line.clone());
                rep.eval(1);
                let quiet = StderrSilence::new();
                let r = guard(|| {
                    let _ = sess.line(&line);
                });
                drop(quiet);
                if let Err(pm) = r {
                    return Err(Violation::new(
                        "survive",
                        &format!("survive/main-panic-inprocess/{}", panic_site(&pm)),
                        format!("line '{}' panicked in the command parser/executor: {pm}", line.trim()),
                        json!({"lines": sent, "eof_after": null, "raw_tail_hex": null}),
                    ));
                }
            }
            let _ = drain_stdout();
            rep.class("layer:in-process-token-soup");
            rep.nontrivial(o::hash_str(&sent.join("|")));
            Ok(())
        });
    }
    // generator sessions as text with blind byte/token mutations, judged by a strict reading
    // of the grammar (fuzzuci.rs); the thorough tier adds the coverage-guided campaign
    super::fuzzuci::mutation_layer(ctx, "C15", ctx.tier.pick(48_000, 1_600_000) / ctx.shard_count() as u32, &mut rep);
    let cases = ctx.tier.pick(12_000, 200_000) / ctx.shard_count() as u32;
    run_prop(ctx, "c15", cases, 40, strategy(), &mut rep, |c, rep| {
        let mut lines: Vec<String> = vec![];
        let mut classes: Vec<&'static str> = vec![];
        let mut last_pos: Option<(String, Vec<String>)> = None; // (head, moves) of the last startpos/fen command with legal moves
        for ent in &c.lines {
            let (mut l, cl) = gen_line(&mut Entropy::new(ent), &corp);
            if let Some(k) = l.strip_prefix("@@RESEND@@ ") {
                let k: usize = k.trim().parse().unwrap_or(0);
                l = match &last_pos {
                    Some((head, moves)) if !moves.is_empty() => {
                        // k = 0..2: shorter by 1..3 (at least one move kept when possible); 3..5: the same list again
                        let keep = if k < 3 { moves.len().saturating_sub(k + 1).max(1).min(moves.len()) } else { moves.len() };
                        format!("{head} moves {}", moves[..keep].join(" "))
                    }
                    _ => "position startpos moves e2e4 e7e5 g1f3 b8c6".to_string(),
                };
            }
            if l.starts_with("position startpos moves ") || (l.starts_with("position fen ") && l.contains(" moves ")) {
                if let Some((head, tail)) = l.split_once(" moves ") {
                    let mv: Vec<String> = tail.split_whitespace().map(String::from).collect();
                    if mv.len() >= 2 && mv.len() <= 40 {
                        last_pos = Some((head.to_string(), mv));
                    }
                }
            }
            lines.push(l);
            classes.extend(cl);
        }
        let eof_after = if c.ending == 0 || c.ending > 4 { None } else { Some((c.ending as usize * 7) % (lines.len() + 1)) };
        for cl in &classes {
            rep.class(&format!("line:{cl}"));
        }
        rep.class(if eof_after.is_some() { "ending:eof" } else { "ending:isready+quit" });
        if !classes.is_empty() {
            rep.nontrivial(o::hash_str(&format!("{}|{eof_after:?}", lines.join("\n"))));
        }
        rep.sample(|| json!({"lines": lines.iter().map(|l| if l.len() > 120 { format!("{}...<{} bytes>", l.chars().take(60).collect::<String>(), l.len()) } else { l.clone() }).collect::<Vec<_>>(), "eof_after": eof_after}));
        run_session(ctx, &lines, eof_after, None, rep)
    });
    rep
}

pub fn replay(ctx: &Ctx, case: &Value) -> Report {
    let mut rep = Report::new();
    if let Some(n) = case["volume_bytes"].as_u64() {
        if let Err(v) = volume_session(ctx, n as usize, &mut rep) {
            rep.violation(v);
        }
        return rep;
    }
    if let Some(n) = case["soak"].as_u64() {
        let corp = corpus::load(&ctx.verif);
        if let Err(v) = soak_session(ctx, &corp, n as usize, case["end_quit"].as_bool().unwrap_or(true), &mut rep) {
            rep.violation(v);
        }
        return rep;
    }
    let lines: Vec<String> = case["lines"].as_array().map(|a| a.iter().filter_map(|x| x.as_str().map(String::from)).collect()).unwrap_or_default();
    let eof_after = case["eof_after"].as_u64().map(|x| x as usize);
    let tail: Option<Vec<u8>> = case["raw_tail_hex"].as_str().map(|h| (0..h.len() / 2).filter_map(|i| u8::from_str_radix(&h[2 * i..2 * i + 2], 16).ok()).collect());
    if let Err(v) = run_session(ctx, &lines, eof_after, tail.as_deref(), &mut rep) {
        rep.violation(v);
    }
    rep
}

pub const LEVEL: &str = "exploration";
pub const RULE: &str = "sessions of 1..25 lines against the real engine binary, each line drawn from a grammar over the UCI vocabulary: the eight commands with well-formed arguments (go budgets that end by themselves), go keywords with the value dropped / duplicated / reordered / replaced by junk (negative, 1e3, 0x10, 40-digit, words, empty, non-ASCII digits), go flags in odd places, setoption with name/value in every order and multiplicity, position with unknown kind / missing 'moves' / empty or illegal or malformed move lists (FEN arguments are always valid FEN, in 6-field and in 4-field form), unknown words, blank lines, tabs, 10 kB lines, non-ASCII text; plus fixed cases: end-of-input at the start, after a line, in the middle of a line, and bytes that are not valid UTF-8. Plus an in-process layer (hook H4): token soups over the vocabulary that never start a search, fed to a session object; any panic is what would have killed the real main thread. Plus a text-mutation layer (fuzzuci.rs, in-process): generator sessions as raw text with 0..6 blind byte/token mutations, every line that does not carry an invalid FEN argument is fed (lines with a go/quit word only through the parser, hook H4b) and must not panic; the thorough tier adds a coverage-guided libFuzzer campaign (target fuzz_uci) over the same oracle. Ending of the process sessions: stop + isready (readyok within 3 s, main thread not panicked) + quit (exit status 0 within 3 s), or end-of-input after a generated line (exit within 3 s); a verdict that rests on the 3 s allowance alone (engine alive and silent, no panic, no output flood) is confirmed by running the same session again, twice, with 20 s, and reported only if it is still there. Plus a soak: two long-lived engine processes (8 quick / 80 thorough searches of 1.2 million nodes each on quiet endgames, so the cache holds hundreds of thousands of entries) are then sent ucinewgame, setoption, position, an unknown word, a truncated go, stop and uci, each followed by isready, and ended by quit / end-of-input. Plus a volume session: one process receives 4 MiB (quick) / 64 MiB (thorough) of ordinary position commands (growing games, ucinewgame in between), isready every 40 lines. A search-thread panic is C09's subject and ignored here. Non-trivial = session containing at least one malformed line; distinct by (text, ending).";
pub const ASSUMPTIONS: &[&str] = &["FEN arguments are valid (the statement's assumption)", "3 s stands in for 'promptly'; 8 engine processes run concurrently"];
