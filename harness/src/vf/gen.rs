//! Generators.  Every random choice comes from a `Vec<u16>` produced by proptest (or
//! decoded from libFuzzer bytes) and is mapped monotonically, so shrinking works.

use super::corpus::Corpus;
use super::frame::{pick16, pick_weighted, Entropy};
use super::oracle::{self as o, Game, Mv, Pos};
use proptest::prelude::*;

pub const START_LEN: usize = 96;

/// entropy for one synthesised / selected start position (fixed length, so shrinking the
/// numbers never shifts later choices)
pub fn synth_strategy() -> impl Strategy<Value = Vec<u16>> {
    proptest::collection::vec(any::<u16>(), START_LEN)
}

fn cheb(a: usize, b: usize) -> i32 {
    (o::file_of(a) - o::file_of(b)).abs().max((o::rank_of(a) - o::rank_of(b)).abs())
}

/// G-synth: a structurally valid position built by construction.  One oracle filter at
/// the end (side not to move not in check, at most two checkers); `None` = rejected.
pub fn synth_pos(e: &mut Entropy) -> Option<Pos> {
    let mut p = Pos::empty();
    let mut reserved = [false; 64];
    let home_mode = e.chance(1, 4);
    let (wk, bk) = if home_mode {
        (4usize, 60usize)
    } else {
        let wk = e.pick(64);
        let cands: Vec<usize> = (0..64).filter(|&s| cheb(s, wk) > 1).collect();
        (wk, cands[e.pick(cands.len())])
    };
    p.sq[wk] = o::mk(true, o::K);
    p.sq[bk] = o::mk(false, o::K);
    p.wtm = e.pick(2) == 0;
    let mut counts = [[0u32; 7]; 2]; // [white?0:1][type]
    if home_mode {
        for (s, white) in [(0usize, true), (7, true), (56, false), (63, false)] {
            if !e.chance(1, 4) {
                p.sq[s] = o::mk(white, o::R);
                counts[if white { 0 } else { 1 }][o::R as usize] += 1;
            }
        }
    }
    // optional e.p. structure: the side that just moved has a pawn on its 4th rank with
    // the two squares behind it empty; usually an enemy pawn stands beside it
    let mut ep_file: Option<u8> = None;
    if e.chance(1, 3) {
        let f = e.pick(8) as i32;
        let mover_white = !p.wtm;
        let (r4, r3, r2) = if mover_white { (3, 2, 1) } else { (4, 5, 6) };
        let sqs = [o::sq(f, r4), o::sq(f, r3), o::sq(f, r2)];
        if sqs.iter().all(|&s| p.sq[s] == 0) {
            p.sq[sqs[0]] = o::mk(mover_white, o::P);
            counts[if mover_white { 0 } else { 1 }][o::P as usize] += 1;
            reserved[sqs[1]] = true;
            reserved[sqs[2]] = true;
            ep_file = Some(f as u8);
            for df in [-1i32, 1] {
                let nf = f + df;
                if (0..8).contains(&nf) && e.chance(2, 3) {
                    let s = o::sq(nf, r4);
                    if p.sq[s] == 0 {
                        p.sq[s] = o::mk(!mover_white, o::P);
                        counts[if mover_white { 1 } else { 0 }][o::P as usize] += 1;
                    }
                }
            }
        }
    }
    // optional promotion structure: a pawn on its 7th rank, usually with an enemy piece on a
    // neighbouring file of the last rank (capture-promotions, also inside quiescence)
    if e.chance(1, 4) {
        let white = e.pick(2) == 0;
        let f = e.pick(8) as i32;
        let (r7, r8) = if white { (6, 7) } else { (1, 0) };
        let s7 = o::sq(f, r7);
        if p.sq[s7] == 0 && !reserved[s7] && counts[if white { 0 } else { 1 }][o::P as usize] < 8 {
            p.sq[s7] = o::mk(white, o::P);
            counts[if white { 0 } else { 1 }][o::P as usize] += 1;
            for df in [-1i32, 1] {
                let nf = f + df;
                if (0..8).contains(&nf) && e.chance(2, 3) {
                    let s8 = o::sq(nf, r8);
                    if p.sq[s8] == 0 && !reserved[s8] {
                        let t = [o::N, o::B, o::R, o::Q][e.pick(4)];
                        p.sq[s8] = o::mk(!white, t);
                        counts[if white { 1 } else { 0 }][t as usize] += 1;
                    }
                }
            }
        }
    }
    const SIZES: [usize; 10] = [0, 1, 2, 3, 4, 6, 8, 10, 12, 15];
    for white in [true, false] {
        let ci = if white { 0 } else { 1 };
        let n = SIZES[e.pick(SIZES.len())];
        for _ in 0..n {
            let men: u32 = counts[ci].iter().sum();
            if men >= 15 {
                break;
            }
            let pawns = counts[ci][o::P as usize];
            let base = |t: u8| -> u32 {
                match t {
                    o::Q => 1,
                    _ => 2,
                }
            };
            let promoted: u32 = [o::N, o::B, o::R, o::Q].iter().map(|&t| counts[ci][t as usize].saturating_sub(base(t))).sum();
            let mut opts: Vec<u8> = vec![];
            if pawns < 8 && promoted + pawns < 8 {
                opts.extend([o::P; 5]);
            }
            for t in [o::N, o::B, o::R, o::Q] {
                let over = counts[ci][t as usize] >= base(t);
                if !over || promoted + 1 + pawns <= 8 {
                    opts.push(t);
                    if t != o::Q {
                        opts.push(t);
                    }
                }
            }
            if opts.is_empty() {
                break;
            }
            let t = opts[e.pick(opts.len())];
            let cands: Vec<usize> = (0..64)
                .filter(|&s| p.sq[s] == 0 && !reserved[s] && (t != o::P || (1..=6).contains(&o::rank_of(s))))
                .collect();
            if cands.is_empty() {
                break;
            }
            let s = cands[e.pick(cands.len())];
            p.sq[s] = o::mk(white, t);
            counts[ci][t as usize] += 1;
        }
    }
    // castling rights: random subset of those the placement permits
    let permitted = [
        p.sq[4] == o::mk(true, o::K) && p.sq[7] == o::mk(true, o::R),
        p.sq[4] == o::mk(true, o::K) && p.sq[0] == o::mk(true, o::R),
        p.sq[60] == o::mk(false, o::K) && p.sq[63] == o::mk(false, o::R),
        p.sq[60] == o::mk(false, o::K) && p.sq[56] == o::mk(false, o::R),
    ];
    for i in 0..4 {
        let want = e.chance(2, 3);
        p.cr[i] = permitted[i] && want;
    }
    p.ep = ep_file;
    const CLOCKS: [u32; 14] = [0, 0, 0, 1, 2, 5, 20, 49, 50, 75, 98, 99, 100, 150];
    let hc = CLOCKS[e.pick(CLOCKS.len())];
    p.hmc = if p.ep.is_some() { 0 } else { hc };
    p.fmn = if e.chance(1, 2) { 1 + e.pick(6000) as u32 } else { 1 + e.pick(60) as u32 };
    if p.is_valid_start().is_err() {
        return None;
    }
    if let Some(k) = p.king_sq(p.wtm) {
        if p.attackers_count(k, !p.wtm) > 2 {
            return None;
        }
    }
    Some(p)
}

pub fn flip_files(p: &Pos) -> Pos {
    let mut n = p.clone();
    for s in 0..64 {
        n.sq[o::sq(7 - o::file_of(s), o::rank_of(s))] = p.sq[s];
    }
    n.ep = p.ep.map(|f| 7 - f);
    n
}

/// G-pattern: a tagged template from the corpus, randomised in colour, mirror and filler
/// material.  Returns the position and the template's tag.
pub fn pattern_pos(e: &mut Entropy, corpus: &Corpus) -> Option<(Pos, String)> {
    let idxs = corpus.with_tag_prefix("pattern:");
    if idxs.is_empty() {
        return None;
    }
    let i = idxs[e.pick(idxs.len())];
    let mut p = corpus.positions[i].clone();
    let tag = corpus.tags[i].clone();
    if e.chance(1, 2) {
        p = p.mirror();
    }
    if !p.cr.iter().any(|&b| b) && e.chance(1, 2) {
        p = flip_files(&p);
    }
    let fill = e.pick(4);
    for _ in 0..fill {
        let t = [o::P, o::P, o::N, o::B, o::R, o::Q][e.pick(6)];
        let white = e.pick(2) == 0;
        let cands: Vec<usize> = (0..64).filter(|&s| p.sq[s] == 0 && (t != o::P || (1..=6).contains(&o::rank_of(s)))).collect();
        if cands.is_empty() {
            break;
        }
        let s = cands[e.pick(cands.len())];
        let mut q = p.clone();
        q.sq[s] = o::mk(white, t);
        let checkers_ok = q.king_sq(q.wtm).map_or(true, |k| q.attackers_count(k, !q.wtm) <= 2);
        if q.is_valid_start().is_ok() && checkers_ok {
            p = q;
        }
    }
    Some((p, tag))
}

#[derive(Clone, Copy, Debug)]
pub struct StartMix {
    pub startpos: u32,
    pub corpus: u32,
    pub synth: u32,
    pub pattern: u32,
}

pub const MIX_DEFAULT: StartMix = StartMix { startpos: 2, corpus: 5, synth: 4, pattern: 5 };

/// G-start. `None` = the synthesised candidate was rejected by the validity filter.
pub fn start_pos(ent: &[u16], corpus: &Corpus, mix: StartMix) -> Option<(Pos, String)> {
    let mut e = Entropy::new(ent);
    let k = pick_weighted(e.raw(), &[mix.startpos, mix.corpus, mix.synth, mix.pattern]);
    match k {
        0 => Some((Pos::startpos(), "startpos".into())),
        1 => {
            if corpus.len() == 0 {
                return Some((Pos::startpos(), "startpos".into()));
            }
            let i = e.pick(corpus.len());
            Some((corpus.positions[i].clone(), format!("corpus:{}", corpus.tags[i])))
        }
        2 => synth_pos(&mut e).map(|p| (p, "synth".into())),
        _ => {
            let k = e.pick(6);
            if k == 0 {
                dense_slider_pos(&mut e).map(|p| (p, "pattern:dense-slider".to_string()))
            } else if k == 1 {
                discovery_pos(&mut e).map(|p| (p, "pattern:discovery-setup".to_string()))
            } else {
                pattern_pos(&mut e, corpus)
            }
        }
    }
}

#[derive(Clone, Debug)]
pub struct GameCase {
    pub start: Vec<u16>,
    pub weighted: bool,
    pub choices: Vec<u16>,
}

pub fn game_strategy(max_len: usize) -> impl Strategy<Value = GameCase> {
    (synth_strategy(), 0u8..4, proptest::collection::vec(any::<u16>(), 0..=max_len))
        .prop_map(|(start, w, choices)| GameCase { start, weighted: w != 0, choices })
}

/// Weights of the legal moves of `game.cur` (same order as `moves`).
pub fn move_weights(game: &Game, moves: &[Mv]) -> Vec<u32> {
    let p = &game.cur;
    let w = p.wtm;
    moves
        .iter()
        .map(|m| {
            let mut wt = 4u32;
            let piece = p.sq[m.from as usize];
            if m.is_castle() {
                wt += 28;
            }
            if m.is_ep() {
                wt += 28;
            }
            if m.is_promo() {
                wt += 12;
            }
            if m.is_capture() {
                wt += 8;
                if matches!(m.to, 0 | 7 | 56 | 63) && o::pt(p.sq[m.to as usize]) == o::R {
                    wt += 16;
                }
            }
            let child = p.make(*m);
            if child.in_check(!w) {
                wt += 6;
            }
            if m.is_double() {
                let r = o::rank_of(m.to as usize);
                let f = o::file_of(m.to as usize);
                for df in [-1, 1] {
                    if (0..8).contains(&(f + df)) && p.sq[o::sq(f + df, r)] == o::mk(!w, o::P) {
                        wt += 6;
                    }
                }
            }
            let own_rights = if w { p.cr[0] || p.cr[1] } else { p.cr[2] || p.cr[3] };
            if own_rights && !m.is_castle() && (o::pt(piece) == o::K || (o::pt(piece) == o::R && matches!(m.from, 0 | 7 | 56 | 63))) {
                wt += 8;
            }
            let cid = child.pos_id();
            if game.earlier.contains(&cid) {
                wt += 10;
            }
            wt
        })
        .collect()
}

pub fn choose_move(game: &Game, moves: &[Mv], weighted: bool, c: u16) -> Mv {
    if weighted {
        let w = move_weights(game, moves);
        moves[pick_weighted(c, &w)]
    } else {
        moves[pick16(c, moves.len())]
    }
}

/// Position classes used in histograms (C01 and friends).
pub fn classify(p: &Pos, legal: &[Mv]) -> Vec<&'static str> {
    let mut v = vec![];
    let w = p.wtm;
    let in_check = p.in_check(w);
    if in_check {
        v.push("in-check");
        if let Some(k) = p.king_sq(w) {
            if p.attackers_count(k, !w) >= 2 {
                v.push("double-check");
            }
        }
    }
    let pseudo = p.pseudo_moves();
    if pseudo.len() != legal.len() {
        v.push("pseudo!=legal");
        if !in_check {
            v.push("pinned-piece");
        }
    }
    if legal.iter().any(|m| m.is_ep()) {
        v.push("ep-legal");
    }
    if pseudo.iter().any(|m| m.is_ep() && !legal.contains(m)) {
        v.push("ep-illegal");
    }
    if legal.iter().any(|m| m.is_castle()) {
        v.push("castle-legal");
    }
    let (denied, bfile) = p.castle_denied_by_attack();
    if denied {
        v.push("castle-denied-by-attack");
    }
    if bfile {
        v.push("castle-qs-b-file-attacked");
    }
    if legal.iter().any(|m| m.is_promo()) {
        v.push("promotion");
        if legal.iter().any(|m| m.is_promo() && m.is_capture() && p.make(*m).in_check(!w)) {
            v.push("promo-capture-check");
        }
    }
    if legal.is_empty() {
        v.push(if in_check { "mate" } else { "stalemate" });
    } else if legal.len() <= 3 {
        v.push("few-moves");
    }
    v
}

pub fn is_nontrivial_c01(classes: &[&'static str]) -> bool {
    classes.iter().any(|c| {
        matches!(
            *c,
            "pseudo!=legal" | "ep-legal" | "ep-illegal" | "castle-legal" | "castle-denied-by-attack" | "castle-qs-b-file-attacked" | "promotion" | "mate" | "stalemate"
        )
    })
}

/// Capture-saturated position: both kings tucked into opposite corners behind their own
/// pieces (so nobody is in check), 5..9 queens and the full set of other pieces per side on
/// random squares.  Legal material (queens <= 1 + 8 promotions, no pawns), unusual but valid;
/// the engine's capture-only quiescence has an enormous tree here, so a search only ends in
/// time if the limits and the stop flag are polled inside it.
pub fn heavy_pos(e: &mut Entropy) -> Option<Pos> {
    let mut p = Pos::empty();
    let flip = e.pick(2) == 1;
    let (wk, wshield, bk, bshield, w_no_knight, b_no_knight): (usize, [usize; 3], usize, [usize; 3], [usize; 2], [usize; 2]) = if flip {
        (7, [6, 14, 15], 56, [48, 49, 57], [13, 22], [41, 50])
    } else {
        (0, [1, 8, 9], 63, [54, 55, 62], [10, 17], [46, 53])
    };
    p.sq[wk] = o::mk(true, o::K);
    p.sq[bk] = o::mk(false, o::K);
    for (i, &s) in wshield.iter().enumerate() {
        p.sq[s] = o::mk(true, [o::R, o::B, o::N][i]);
    }
    for (i, &s) in bshield.iter().enumerate() {
        p.sq[s] = o::mk(false, [o::R, o::B, o::N][i]);
    }
    for white in [true, false] {
        let nq = 5 + e.pick(5);
        let mut pieces = vec![o::Q; nq];
        pieces.extend([o::R, o::B, o::N]);
        for t in pieces {
            let forbidden: &[usize] = if white { &b_no_knight } else { &w_no_knight };
            let cands: Vec<usize> = (0..64).filter(|&s| p.sq[s] == 0 && !(t == o::N && forbidden.contains(&s))).collect();
            if cands.is_empty() {
                break;
            }
            let s = cands[e.pick(cands.len())];
            p.sq[s] = o::mk(white, t);
        }
    }
    p.wtm = e.pick(2) == 0;
    p.hmc = 0;
    p.fmn = 30 + e.pick(40) as u32;
    if p.is_valid_start().is_err() || p.in_check(p.wtm) || p.legal_moves().is_empty() {
        return None;
    }
    Some(p)
}

/// A slider whose every line square is occupied (by either colour): the extreme entries of
/// the magic tables (all relevance bits set), reached through real positions.
pub fn dense_slider_pos(e: &mut Entropy) -> Option<Pos> {
    let mut p = Pos::empty();
    let t = [o::B, o::R, o::Q, o::B][e.pick(4)];
    let centre = [27usize, 28, 35, 36, 18, 21, 42, 45, 19, 20, 26, 29, 34, 37, 43, 44];
    let s = if e.chance(1, 3) { e.pick(64) } else { centre[e.pick(centre.len())] };
    let white = e.pick(2) == 0;
    p.sq[s] = o::mk(white, t);
    let dirs: Vec<(i32, i32)> = match t {
        o::B => vec![(1, 1), (-1, 1), (-1, -1), (1, -1)],
        o::R => vec![(1, 0), (0, 1), (-1, 0), (0, -1)],
        _ => vec![(1, 1), (-1, 1), (-1, -1), (1, -1), (1, 0), (0, 1), (-1, 0), (0, -1)],
    };
    // kings first, off the slider's lines
    let on_line = |q: usize| -> bool {
        let (df, dr) = (o::file_of(q) - o::file_of(s), o::rank_of(q) - o::rank_of(s));
        dirs.iter().any(|&(a, b)| (a == 0 && df == 0 && dr.signum() == b) || (b == 0 && dr == 0 && df.signum() == a) || (a != 0 && b != 0 && df.abs() == dr.abs() && df.signum() == a && dr.signum() == b))
    };
    let free: Vec<usize> = (0..64).filter(|&q| q != s && !on_line(q)).collect();
    if free.len() < 2 {
        return None;
    }
    let wk = free[e.pick(free.len())];
    let bkc: Vec<usize> = free.iter().copied().filter(|&q| cheb(q, wk) > 1).collect();
    if bkc.is_empty() {
        return None;
    }
    let bk = bkc[e.pick(bkc.len())];
    p.sq[wk] = o::mk(true, o::K);
    p.sq[bk] = o::mk(false, o::K);
    // every line square gets a piece; the last one or two of each ray are sometimes left
    // empty (the table ignores edge squares)
    let skip_edges = e.pick(3);
    for &(a, b) in &dirs {
        let (mut f, mut r) = (o::file_of(s) + a, o::rank_of(s) + b);
        while (0..8).contains(&f) && (0..8).contains(&r) {
            let q = o::sq(f, r);
            let edge = !(0..8).contains(&(f + a)) || !(0..8).contains(&(r + b));
            if !(edge && skip_edges == 0) {
                let mut tt = [o::P, o::N, o::B, o::R, o::Q, o::P, o::N][e.pick(7)];
                if tt == o::P && !(1..=6).contains(&r) {
                    tt = o::N;
                }
                p.sq[q] = o::mk(e.pick(2) == 0, tt);
            }
            f += a;
            r += b;
        }
    }
    p.wtm = e.pick(2) == 0;
    p.fmn = 20 + e.pick(30) as u32;
    if p.is_valid_start().is_err() {
        return None;
    }
    if let Some(k) = p.king_sq(p.wtm) {
        if p.attackers_count(k, !p.wtm) > 2 {
            return None;
        }
    }
    Some(p)
}

/// Discovered-check set-up: the side to move has a slider aimed at the enemy king with exactly
/// one of its own pieces in between (every move of that piece off the line uncovers a check,
/// some of them double checks), plus filler material; the mover is usually behind in material.
pub fn discovery_pos(e: &mut Entropy) -> Option<Pos> {
    let mut p = Pos::empty();
    let diag = e.pick(2) == 0;
    let dirs: [(i32, i32); 4] = if diag { [(1, 1), (-1, 1), (-1, -1), (1, -1)] } else { [(1, 0), (0, 1), (-1, 0), (0, -1)] };
    let bk = e.pick(64);
    let (df, dr) = dirs[e.pick(4)];
    // squares on the ray from the king
    let mut ray = vec![];
    let (mut f, mut r) = (o::file_of(bk) + df, o::rank_of(bk) + dr);
    while (0..8).contains(&f) && (0..8).contains(&r) {
        ray.push(o::sq(f, r));
        f += df;
        r += dr;
    }
    if ray.len() < 2 {
        return None;
    }
    let front_i = e.pick(ray.len() - 1);
    let back_i = front_i + 1 + e.pick(ray.len() - front_i - 1);
    p.sq[bk] = o::mk(false, o::K);
    let slider = if e.pick(3) == 0 { o::Q } else if diag { o::B } else { o::R };
    p.sq[ray[back_i]] = o::mk(true, slider);
    // the front piece moves on other lines than the slider's
    let front = if diag { [o::N, o::R, o::N][e.pick(3)] } else { [o::N, o::B, o::N][e.pick(3)] };
    p.sq[ray[front_i]] = o::mk(true, front);
    let mut reserved = [false; 64];
    for &q in &ray[..=back_i] {
        reserved[q] = true;
    }
    let free: Vec<usize> = (0..64).filter(|&q| p.sq[q] == 0 && !reserved[q] && cheb(q, bk) > 1).collect();
    if free.is_empty() {
        return None;
    }
    p.sq[free[e.pick(free.len())]] = o::mk(true, o::K);
    // filler: the defender gets more material than the attacker
    for (white, n) in [(false, 2 + e.pick(4)), (true, e.pick(3))] {
        for _ in 0..n {
            let t = [o::P, o::P, o::N, o::B, o::R, o::Q, o::Q][e.pick(7)];
            let c: Vec<usize> = (0..64).filter(|&q| p.sq[q] == 0 && !reserved[q] && (t != o::P || (1..=6).contains(&o::rank_of(q)))).collect();
            if c.is_empty() {
                break;
            }
            p.sq[c[e.pick(c.len())]] = o::mk(white, t);
        }
    }
    p.wtm = true;
    p.fmn = 20 + e.pick(40) as u32;
    let mut p = if e.pick(2) == 1 { p.mirror() } else { p };
    p.hmc = e.pick(30) as u32;
    if p.is_valid_start().is_err() || p.in_check(p.wtm) {
        return None;
    }
    Some(p)
}
