//! C11 - pruning, move ordering and re-searches never change the search result.
//!
//! Differential: the engine's fixed-depth root result with result caching neutralised
//! (hook H1) against an unpruned reference negamax of the engine's own look-ahead game on
//! the independent oracle board.

use super::frame::*;
use super::oracle::{self as o, Game, Mv, Pos};
use super::refsearch::{self, Ref};
use super::{corpus, eng, gen, srch};
use crate::board::Board;
use proptest::prelude::*;
use serde_json::{json, Value};

#[derive(Clone, Debug)]
pub struct Case {
    pub game: gen::GameCase,
    pub depth_sel: u8,
}

pub fn strategy() -> impl Strategy<Value = Case> {
    (gen::game_strategy(40), 0u8..8).prop_map(|(game, depth_sel)| Case { game, depth_sel })
}

pub fn build_board(start_fen: &str, moves: &[String]) -> Option<Board> {
    let mut board = guard(|| Board::from_fen(start_fen)).ok()?;
    for u in moves {
        let ply = eng::find_ply(&board, u)?;
        guard(|| board.make_move(ply)).ok()?;
    }
    Some(board)
}

pub fn case_json(start_fen: &str, moves: &[String], depth: u32) -> Value {
    json!({"start_fen": start_fen, "moves": moves, "depth": depth})
}

/// rule-sensitivity classification on/off (off inside the libFuzzer target: speed)
pub static SENSITIVITY: std::sync::atomic::AtomicBool = std::sync::atomic::AtomicBool::new(true);

pub struct Outcome {
    pub skipped: Option<&'static str>,
}

/// One (position with history, depth) comparison.
pub fn compare(start_fen: &str, moves: &[String], depth: u32, budget: u64, rep: &mut Report) -> Result<Outcome, Violation> {
    let Ok(start) = Pos::from_fen(start_fen) else { return Ok(Outcome { skipped: Some("bad-fen") }) };
    let mut game = Game::new(start);
    for u in moves {
        let Some(m) = game.cur.find_legal(u) else { return Ok(Outcome { skipped: Some("bad-move") }) };
        game.play(m);
    }
    let root = game.cur.clone();
    if root.legal_moves().is_empty() {
        return Ok(Outcome { skipped: Some("no-legal-move") });
    }
    let mut r = Ref::new(&game.earlier, budget);
    let Some((want, vals)) = r.root(&root, depth) else {
        return Ok(Outcome { skipped: Some("reference-budget") });
    };
    if let Some(f) = &r.harness_fault {
        rep.infra_errors.push(f.clone());
        return Ok(Outcome { skipped: Some("harness-fault") });
    }
    rep.class_n("quiescence-cross-checks", r.cross_checked);
    let Some(board) = build_board(start_fen, moves) else { return Ok(Outcome { skipped: Some("engine-setup") }) };
    srch::set_tt_off(true);
    srch::clear_tt();
    let res = srch::run_search(&board, Some(depth as u8), None);
    srch::set_tt_off(false);
    srch::clear_tt();
    rep.eval(1);
    let cj = case_json(start_fen, moves, depth);
    // classes
    let mut cl: Vec<&'static str> = vec![];
    if r.stats.mate_scores > 0 {
        cl.push("mate-scores");
    }
    if r.stats.repetition_draws > 0 {
        cl.push("repetition-draw-in-tree");
    }
    if r.stats.fifty_draws > 0 {
        cl.push("fifty-move-in-tree");
    }
    if r.stats.check_extensions > 0 {
        cl.push("check-extension");
    }
    if r.stats.q_captures > 0 {
        cl.push("quiescence-captures");
    }
    if r.stats.stalemates > 0 {
        cl.push("stalemate-in-tree");
    }
    if want.abs() >= 32000 {
        cl.push("root-mate-value");
    }
    for c in &cl {
        rep.class(c);
    }
    rep.class(&format!("depth:{depth}"));
    rep.class(if game.earlier.is_empty() { "history:none" } else { "history:yes" });
    if want != refsearch::material(&root) || !cl.is_empty() {
        rep.nontrivial(o::hash_str(&format!("{start_fen}|{}|{depth}", moves.join(" "))));
    }
    let tag = cl.first().copied().unwrap_or("plain");
    if let Some(pm) = &res.panicked {
        return Err(Violation::new("value", &format!("value/panic/{}", panic_site(pm)), format!("search panicked at {} depth {depth}: {pm}", root.to_fen()), cj));
    }
    let (Some(score), Some(mv), Some(d)) = (res.root_score, res.root_move.clone(), res.root_depth) else {
        return Err(Violation::new("value", "value/no-root-entry", format!("no root result after searching {} to depth {depth}", root.to_fen()), cj));
    };
    if d as u32 != depth {
        return Err(Violation::new("value", "value/root-depth", format!("root entry has depth {d}, asked for {depth} at {}", root.to_fen()), cj));
    }
    if score as i32 != want {
        return Err(Violation::new(
            "value",
            &format!("value/{tag}"),
            format!("root score {score} != exact minimax value {want} at {} [history {} plies] depth {depth} (classes {:?})", root.to_fen(), game.earlier.len(), cl),
            cj,
        ));
    }
    match vals.iter().find(|(m, _)| m.uci() == mv) {
        None => {
            return Err(Violation::new("move", "move/not-legal", format!("chosen move {mv} is not legal at {}", root.to_fen()), cj));
        }
        Some((_, v)) => {
            if *v != want {
                return Err(Violation::new("move", &format!("move/{tag}"), format!("chosen move {mv} is worth {v}, the root is worth {want} at {} depth {depth}", root.to_fen()), cj));
            }
        }
    }
    if let Some(bm) = &res.bestmove {
        if *bm != mv {
            return Err(Violation::new("move", "move/bestmove-differs", format!("bestmove {bm} differs from the root's move {mv}"), cj));
        }
    }
    // rule sensitivity of this case (reference-side flaws; never judges the engine)
    // (every third case; the two flaws that almost every case exercises on every twelfth)
    if SENSITIVITY.load(std::sync::atomic::Ordering::Relaxed) && r.stats.nodes + r.stats.qnodes <= 25_000 && o::hash_str(start_fen) % 3 == 0 {
        let sampled = o::hash_str(start_fen) % 12 == 0;
        for (flaw, name) in refsearch::FLAWS {
            let exercised = match flaw {
                1 => r.stats.q_ep > 0,
                2 | 7 => r.stats.fifty_draws > 0,
                3 => r.stats.q_promo > 0,
                4 => r.stats.repetition_draws > 0,
                5 => sampled && r.stats.check_extensions > 0,
                6 => r.stats.mate_scores > 0,
                _ => sampled && r.stats.q_captures > 0,
            };
            if !exercised {
                continue;
            }
            let mut f = Ref::new(&game.earlier, budget);
            f.flaw = flaw;
            if let Some((fv, fvals)) = f.root(&root, depth) {
                // the flawed engine would be exposed if the root value changes, or if a move
                // it may choose (best under the flaw) is not best in truth
                if fv != want {
                    rep.class(&format!("sensitive(root value changes):{name}"));
                } else if fvals.iter().any(|(m, v)| *v == fv && vals.iter().any(|(m2, v2)| m2 == m && *v2 != want)) {
                    rep.class(&format!("sensitive(a wrong move ties for best):{name}"));
                }
            }
        }
    }
    rep.sample(|| json!({"root": root.to_fen(), "history_plies": game.earlier.len(), "depth": depth, "value": want, "engine_move": mv, "engine_nodes": res.nodes, "reference_nodes": r.stats.nodes + r.stats.qnodes, "classes": cl}));
    Ok(Outcome { skipped: None })
}

fn pick_depth(root: &Pos, sel: u8) -> u32 {
    let b = root.legal_moves().len().max(1);
    let mut d = match sel {
        0 => 1,
        1 | 2 => 2,
        3 | 4 | 5 => 3,
        _ => 4,
    };
    if d == 4 {
        if b <= 5 {
            d = 6;
        } else if b <= 8 {
            d = 5;
        } else if b > 14 {
            d = 3;
        }
    }
    d
}

/// En passant at the horizon: a pawn of the side "P" stands on its home square with the two
/// squares in front empty and an enemy pawn beside the double-push square, so that the push
/// can be answered by an en-passant capture - in quiescence when the push is the last
/// full-width ply.  In half of the positions the push also blocks a diagonal pin (enemy
/// bishop/queen - double-push square - pinned piece - king), which the en-passant capture
/// re-opens: then the capture decides the value.  Returns the position and whether the
/// pushing side is to move.
pub fn ep_horizon_pos(e: &mut Entropy) -> Option<(Pos, bool)> {
    let mut p = Pos::empty();
    let f = e.pick(8) as i32;
    let s = if f == 0 { 1 } else if f == 7 { -1 } else if e.pick(2) == 0 { 1 } else { -1 };
    p.sq[o::sq(f, 1)] = o::mk(true, o::P);
    p.sq[o::sq(f + s, 3)] = o::mk(false, o::P);
    let reserved = [o::sq(f, 1), o::sq(f, 2), o::sq(f, 3), o::sq(f + s, 3)];
    let on = |x: i32, y: i32| (0..8).contains(&x) && (0..8).contains(&y);
    let mut wk_placed = false;
    if e.pick(2) == 0 {
        let (dx, dy) = [(1, 1), (1, -1), (-1, 1), (-1, -1)][e.pick(4)];
        let a = 1 + e.pick(3) as i32;
        let b = 1 + e.pick(2) as i32;
        let c = b + 1 + e.pick(2) as i32;
        let (ax, ay) = (f + a * dx, 3 + a * dy);
        let (bx, by) = (f - b * dx, 3 - b * dy);
        let (cx, cy) = (f - c * dx, 3 - c * dy);
        if on(ax, ay) && on(bx, by) && on(cx, cy) {
            let sqs = [o::sq(ax, ay), o::sq(bx, by), o::sq(cx, cy)];
            // nothing of the set-up on the line itself
            let mut line = vec![];
            for k in -(c)..=a {
                line.push(o::sq(f + k * dx, 3 + k * dy));
            }
            let clash = line.iter().any(|q| *q != o::sq(f, 3) && reserved.contains(q)) || sqs.iter().any(|q| reserved.contains(q));
            if !clash {
                p.sq[sqs[0]] = o::mk(false, [o::B, o::Q][e.pick(2)]);
                let t = [o::R, o::N, o::Q, o::B, o::R][e.pick(5)];
                p.sq[sqs[1]] = o::mk(true, t);
                p.sq[sqs[2]] = o::mk(true, o::K);
                wk_placed = true;
                for q in line {
                    if p.sq[q] == 0 && q != o::sq(f, 3) {
                        // keep the line free of the extras placed below
                        p.sq[q] = 255;
                    }
                }
            }
        }
    }
    let free = |p: &Pos| -> Vec<usize> { (0..64).filter(|q| p.sq[*q] == 0 && !reserved.contains(q)).collect() };
    if !wk_placed {
        let fr = free(&p);
        p.sq[fr[e.pick(fr.len())]] = o::mk(true, o::K);
    }
    let wk = p.king_sq(true)?;
    let fr: Vec<usize> = free(&p).into_iter().filter(|&q| (o::file_of(q) - o::file_of(wk)).abs().max((o::rank_of(q) - o::rank_of(wk)).abs()) > 1).collect();
    if fr.is_empty() {
        return None;
    }
    p.sq[fr[e.pick(fr.len())]] = o::mk(false, o::K);
    for _ in 0..e.pick(5) {
        let white = e.pick(2) == 0;
        let t = [o::P, o::P, o::N, o::B, o::R, o::Q][e.pick(6)];
        let fr: Vec<usize> = free(&p).into_iter().filter(|&q| t != o::P || (1..=6).contains(&o::rank_of(q))).collect();
        if fr.is_empty() {
            break;
        }
        p.sq[fr[e.pick(fr.len())]] = o::mk(white, t);
    }
    for q in 0..64 {
        if p.sq[q] == 255 {
            p.sq[q] = 0;
        }
    }
    let pusher_to_move = e.pick(3) != 0;
    p.wtm = pusher_to_move;
    p.fmn = 20 + e.pick(40) as u32;
    if e.pick(2) == 1 {
        p = p.mirror();
    }
    if p.is_valid_start().is_err() || p.in_check(p.wtm) || p.legal_moves().is_empty() {
        return None;
    }
    Some((p, pusher_to_move))
}

pub const SHARDS: usize = 16;

pub fn run(ctx: &Ctx) -> Report {
    if ctx.shard.is_none() {
        // RCE_FUZZ_ONLY=1: only the campaign (used when measuring what the fuzzer finds alone)
        let mut rep = if std::env::var_os("RCE_FUZZ_ONLY").is_some() { Report::new() } else { run_sharded(ctx, SHARDS, SHARDS) };
        if ctx.tier == Tier::Thorough {
            super::fuzzsearch::campaign(ctx, "C11", &mut rep);
        }
        return rep;
    }
    let mut rep = Report::new();
    let corp = corpus::load(&ctx.verif);
    let budget = ctx.tier.pick(250_000u64, 1_500_000);
    // every corpus position at depth 1..3 (sharded), no history
    for (i, fen) in corp.fens.iter().enumerate() {
        if i % ctx.shard_count() != ctx.shard_index() {
            continue;
        }
        for d in 1..=ctx.tier.pick(2u32, 3) {
            match compare(fen, &[], d, budget, &mut rep) {
                Ok(o) => {
                    if let Some(s) = o.skipped {
                        rep.class(&format!("skipped:{s}"));
                    }
                }
                Err(v) => {
                    if let Some(k) = ctx.is_known(&v.sig) {
                        rep.known(&v.sig, &k.text);
                    } else {
                        rep.violation(v);
                    }
                }
            }
        }
    }
    // check chains: open boards with queens and rooks on both sides and bare kings, searched to
    // depth 1-2; lines with five and more consecutive checks are common there, so the extension
    // is applied again and again on one line
    let chains = ctx.tier.pick(8_000, 120_000) / ctx.shard_count() as u32;
    run_prop(ctx, "c11-chains", chains, 200, (gen::synth_strategy(), 1u32..=2), &mut rep, |(ent, d), rep| {
        let mut e = Entropy::new(ent);
        let mut p = Pos::empty();
        let wk = e.pick(64);
        let cands: Vec<usize> = (0..64).filter(|&s| (o::file_of(s) - o::file_of(wk)).abs().max((o::rank_of(s) - o::rank_of(wk)).abs()) > 1).collect();
        let bk = cands[e.pick(cands.len())];
        p.sq[wk] = o::mk(true, o::K);
        p.sq[bk] = o::mk(false, o::K);
        for white in [true, false] {
            for _ in 0..1 + e.pick(3) {
                let t = [o::Q, o::Q, o::Q, o::R, o::R, o::B, o::N, o::Q][e.pick(8)];
                let free: Vec<usize> = (0..64).filter(|&s| p.sq[s] == 0).collect();
                p.sq[free[e.pick(free.len())]] = o::mk(white, t);
            }
        }
        p.wtm = e.pick(2) == 0;
        p.fmn = 30 + e.pick(40) as u32;
        if p.is_valid_start().is_err() || p.legal_moves().is_empty() {
            rep.class("start:rejected");
            return Ok(());
        }
        if let Some(k) = p.king_sq(p.wtm) {
            if p.attackers_count(k, !p.wtm) > 2 {
                return Ok(());
            }
        }
        rep.class("start:check-chain");
        let out = compare(&p.to_fen(), &[], *d, budget, rep)?;
        if let Some(s) = out.skipped {
            rep.class(&format!("skipped:{s}"));
        }
        Ok(())
    });
    // very wide nodes: one side has 6-9 queens and rooks against a nearly bare king (more than
    // 128 pseudo-legal moves, almost no captures, so the reference stays cheap); depth 1-2
    let wide = ctx.tier.pick(480, 8000) / ctx.shard_count() as u32;
    run_prop(ctx, "c11-wide", wide, 100, (gen::synth_strategy(), 1u32..=2), &mut rep, |(ent, d), rep| {
        let mut e = Entropy::new(ent);
        let mut p = Pos::empty();
        // the lone side's king sits in a corner behind three of its own pieces, so there is no
        // instant mate and the value is decided by which loose piece can be won
        let (bk, shield): (usize, [usize; 3]) = [(63usize, [54usize, 55, 62]), (56, [48, 49, 57]), (7, [6, 14, 15]), (0, [1, 8, 9])][e.pick(4)];
        p.sq[bk] = o::mk(false, o::K);
        for (i, &s) in shield.iter().enumerate() {
            p.sq[s] = o::mk(false, [o::P, o::N, o::B][(i + e.pick(3)) % 3]);
            if o::pt(p.sq[s]) == o::P && !(1..=6).contains(&o::rank_of(s)) {
                p.sq[s] = o::mk(false, o::N);
            }
        }
        let far: Vec<usize> = (0..64).filter(|&s| p.sq[s] == 0 && (o::file_of(s) - o::file_of(bk)).abs().max((o::rank_of(s) - o::rank_of(bk)).abs()) > 3).collect();
        p.sq[far[e.pick(far.len())]] = o::mk(true, o::K);
        let nq = 6 + e.pick(4);
        let mut pieces = vec![o::Q; nq];
        pieces.extend([o::R, o::R]);
        for t in pieces {
            let free: Vec<usize> = (0..64)
                .filter(|&s| {
                    if p.sq[s] != 0 {
                        return false;
                    }
                    let mut q = p.clone();
                    q.sq[s] = o::mk(true, t);
                    !q.attacked(bk, true)
                })
                .collect();
            if free.is_empty() {
                break;
            }
            p.sq[free[e.pick(free.len())]] = o::mk(true, t);
        }
        // one to three loose pieces of the lone side somewhere on the board
        for _ in 0..1 + e.pick(3) {
            let t = [o::N, o::B, o::R, o::P][e.pick(4)];
            let free: Vec<usize> = (0..64).filter(|&s| p.sq[s] == 0 && (t != o::P || (1..=6).contains(&o::rank_of(s)))).collect();
            p.sq[free[e.pick(free.len())]] = o::mk(false, t);
        }
        p.wtm = true;
        p.fmn = 40 + e.pick(40) as u32;
        let p = if e.pick(2) == 1 { p.mirror() } else { p };
        let p = if e.pick(2) == 1 { gen::flip_files(&p) } else { p };
        if p.is_valid_start().is_err() || p.legal_moves().is_empty() {
            rep.class("start:rejected");
            return Ok(());
        }
        if p.pseudo_moves().len() > 128 {
            rep.class("start:wide(>128 pseudo-legal moves)");
        } else {
            rep.class("start:wide(<=128)");
        }
        let out = compare(&p.to_fen(), &[], *d, budget, rep)?;
        if let Some(s) = out.skipped {
            rep.class(&format!("skipped:{s}"));
        }
        Ok(())
    });
    // pawn endgames: kings and one to three pawns close to promotion, depth 3-4 (tiny trees, so many
    // cases): under-promotions, stalemate tricks and promotion races decide the value
    let kpk = ctx.tier.pick(4000, 80_000) / ctx.shard_count() as u32;
    run_prop(ctx, "c11-kpk", kpk, 200, (gen::synth_strategy(), 3u32..=4), &mut rep, |(ent, d), rep| {
        let mut e = Entropy::new(ent);
        let mut p = Pos::empty();
        let wk = e.pick(64);
        let c: Vec<usize> = (0..64).filter(|&s| (o::file_of(s) - o::file_of(wk)).abs().max((o::rank_of(s) - o::rank_of(wk)).abs()) > 1).collect();
        p.sq[wk] = o::mk(true, o::K);
        p.sq[c[e.pick(c.len())]] = o::mk(false, o::K);
        for _ in 0..1 + e.pick(3) {
            let white = e.pick(3) != 0;
            // mostly on the 6th/7th rank of the owner
            let r = if white { [6, 6, 5, 4][e.pick(4)] } else { [1, 1, 2, 3][e.pick(4)] };
            let f = e.pick(8) as i32;
            if p.sq[o::sq(f, r)] == 0 {
                p.sq[o::sq(f, r)] = o::mk(white, o::P);
            }
        }
        if e.pick(4) == 0 {
            let free: Vec<usize> = (0..64).filter(|&s| p.sq[s] == 0).collect();
            p.sq[free[e.pick(free.len())]] = o::mk(e.pick(2) == 0, [o::N, o::B][e.pick(2)]);
        }
        // something to capture WITH promotion (in quiescence when the pawn move is at the horizon):
        // an enemy piece diagonally in front of a pawn on its 7th rank
        if e.pick(2) == 0 {
            for s in 0..64 {
                let c = p.sq[s];
                if o::pt(c) != o::P {
                    continue;
                }
                let (w, r7, r8) = if o::is_white(c) { (true, 6, 7) } else { (false, 1, 0) };
                if o::rank_of(s) != r7 {
                    continue;
                }
                let f = o::file_of(s) + if e.pick(2) == 0 { 1 } else { -1 };
                if (0..8).contains(&f) && p.sq[o::sq(f, r8)] == 0 {
                    p.sq[o::sq(f, r8)] = o::mk(!w, [o::N, o::B, o::R, o::Q][e.pick(4)]);
                }
            }
        }
        p.wtm = e.pick(2) == 0;
        p.fmn = 50 + e.pick(30) as u32;
        if p.is_valid_start().is_err() || p.legal_moves().is_empty() {
            rep.class("start:rejected");
            return Ok(());
        }
        rep.class("start:pawn-endgame");
        let out = compare(&p.to_fen(), &[], *d, budget, rep)?;
        if let Some(s) = out.skipped {
            rep.class(&format!("skipped:{s}"));
        }
        Ok(())
    });
    // discovered-check set-ups at depth 2-3 (quiet moves that uncover a check, double attacks):
    // the kind of move a forward-pruning shortcut is most likely to mishandle
    let disc = ctx.tier.pick(3200, 48_000) / ctx.shard_count() as u32;
    run_prop(ctx, "c11-discovery", disc, 200, (gen::synth_strategy(), 2u32..=3), &mut rep, |(ent, d), rep| {
        let Some(p) = gen::discovery_pos(&mut Entropy::new(ent)) else {
            rep.class("start:rejected");
            return Ok(());
        };
        if p.legal_moves().is_empty() || p.legal_moves().len() > 45 {
            return Ok(());
        }
        rep.class("start:discovery-setup");
        let out = compare(&p.to_fen(), &[], *d, budget, rep)?;
        if let Some(s) = out.skipped {
            rep.class(&format!("skipped:{s}"));
        }
        Ok(())
    });
    // en passant at the horizon (see ep_horizon_pos): depth 1 or 3 when the pushing side is to
    // move, depth 2 otherwise, so that the double push is the last full-width ply
    let eph = ctx.tier.pick(6400, 48_000) / ctx.shard_count() as u32;
    run_prop(ctx, "c11-ep-horizon", eph, 200, (gen::synth_strategy(), 0u8..4), &mut rep, |(ent, dsel), rep| {
        let Some((p, pusher)) = ep_horizon_pos(&mut Entropy::new(ent)) else {
            rep.class("start:rejected");
            return Ok(());
        };
        let d = if pusher {
            if *dsel == 3 && p.legal_moves().len() <= 12 {
                3
            } else {
                1
            }
        } else {
            2
        };
        rep.class("start:ep-horizon");
        let out = compare(&p.to_fen(), &[], d, budget, rep)?;
        if let Some(s) = out.skipped {
            rep.class(&format!("skipped:{s}"));
        }
        Ok(())
    });
    // promotion WITH capture at the horizon: a pawn on its 7th rank attacks enemy pieces on both
    // neighbouring squares of the 8th rank (its own promotion square is blocked or free), the
    // other side moves first (depth 1) or second (depth 2): it cannot save both pieces, so the
    // capturing promotion found by quiescence decides the value
    let forks = ctx.tier.pick(2400, 16_000) / ctx.shard_count() as u32;
    run_prop(ctx, "c11-promo-fork", forks, 200, (gen::synth_strategy(), 1u32..=2), &mut rep, |(ent, d), rep| {
        let mut e = Entropy::new(ent);
        let mut p = Pos::empty();
        let f = 1 + e.pick(6) as i32;
        p.sq[o::sq(f, 6)] = o::mk(true, o::P);
        for df in [-1, 1] {
            p.sq[o::sq(f + df, 7)] = o::mk(false, [o::N, o::B, o::R, o::Q, o::N, o::R][e.pick(6)]);
        }
        if e.pick(2) == 0 {
            p.sq[o::sq(f, 7)] = o::mk(e.pick(2) == 0, [o::N, o::B, o::R][e.pick(3)]);
        }
        let free: Vec<usize> = (0..64).filter(|&s| p.sq[s] == 0).collect();
        let wk = free[e.pick(free.len())];
        p.sq[wk] = o::mk(true, o::K);
        let c: Vec<usize> = (0..64).filter(|&s| p.sq[s] == 0 && (o::file_of(s) - o::file_of(wk)).abs().max((o::rank_of(s) - o::rank_of(wk)).abs()) > 1).collect();
        p.sq[c[e.pick(c.len())]] = o::mk(false, o::K);
        for _ in 0..e.pick(3) {
            let t = [o::N, o::B, o::P, o::R][e.pick(4)];
            let free: Vec<usize> = (0..64).filter(|&s| p.sq[s] == 0 && (t != o::P || (1..=6).contains(&o::rank_of(s)))).collect();
            p.sq[free[e.pick(free.len())]] = o::mk(e.pick(2) == 0, t);
        }
        // depth 1: the defender moves, then quiescence; depth 2: the pawn's side makes a quiet move first
        p.wtm = *d == 2;
        p.fmn = 40 + e.pick(30) as u32;
        let p = if e.pick(2) == 1 { p.mirror() } else { p };
        if p.is_valid_start().is_err() || p.legal_moves().is_empty() || p.legal_moves().len() > 40 {
            rep.class("start:rejected");
            return Ok(());
        }
        rep.class("start:promotion-fork");
        let out = compare(&p.to_fen(), &[], *d, budget, rep)?;
        if let Some(s) = out.skipped {
            rep.class(&format!("skipped:{s}"));
        }
        Ok(())
    });
    // castling that gives check or mate inside the tree (the checking piece is the castled rook,
    // not the piece the move is recorded for)
    let castles = ctx.tier.pick(2400, 24_000) / ctx.shard_count() as u32;
    run_prop(ctx, "c11-castle-check", castles, 200, (gen::synth_strategy(), 1u32..=3), &mut rep, |(ent, d), rep| {
        let Some(p) = super::c12::castle_check_pos(&mut Entropy::new(ent)) else {
            rep.class("start:rejected");
            return Ok(());
        };
        let n = p.legal_moves().len();
        if n > 40 {
            return Ok(());
        }
        let d = if n > 22 { (*d).min(2) } else { *d };
        rep.class("start:castling-gives-check-setup");
        let out = compare(&p.to_fen(), &[], d, budget, rep)?;
        if let Some(s) = out.skipped {
            rep.class(&format!("skipped:{s}"));
        }
        Ok(())
    });
    // repetition inside the tree: sparse, materially unbalanced positions reached by a short
    // to-and-fro (A m1 B m2 C m1' D): the side to move can step back into a position of the
    // game (an immediate draw), which the side that is behind wants and the other must avoid
    let reps = ctx.tier.pick(4000, 32_000) / ctx.shard_count() as u32;
    run_prop(ctx, "c11-repetition", reps, 200, (gen::synth_strategy(), 1u32..=3), &mut rep, |(ent, d), rep| {
        let mut e = Entropy::new(ent);
        let mut p = Pos::empty();
        let wk = e.pick(64);
        let c: Vec<usize> = (0..64).filter(|&s| (o::file_of(s) - o::file_of(wk)).abs().max((o::rank_of(s) - o::rank_of(wk)).abs()) > 1).collect();
        p.sq[wk] = o::mk(true, o::K);
        p.sq[c[e.pick(c.len())]] = o::mk(false, o::K);
        for _ in 0..1 + e.pick(4) {
            let t = [o::N, o::B, o::R, o::Q, o::P, o::R][e.pick(6)];
            let free: Vec<usize> = (0..64).filter(|&s| p.sq[s] == 0 && (t != o::P || (1..=6).contains(&o::rank_of(s)))).collect();
            p.sq[free[e.pick(free.len())]] = o::mk(e.pick(2) == 0, t);
        }
        p.wtm = e.pick(2) == 0;
        p.fmn = 30 + e.pick(40) as u32;
        p.hmc = e.pick(40) as u32;
        if p.is_valid_start().is_err() || p.in_check(p.wtm) {
            rep.class("start:rejected");
            return Ok(());
        }
        let mut game = Game::new(p);
        // m1, m2: reversible moves (no pawn move, no capture), then m1 back
        let mut played: Vec<Mv> = vec![];
        for k in 0..3 {
            let legal = game.cur.legal_moves();
            let cand: Vec<Mv> = if k < 2 {
                legal.into_iter().filter(|m| !m.is_capture() && o::pt(game.cur.sq[m.from as usize]) != o::P && !m.is_castle()).collect()
            } else {
                legal.into_iter().filter(|m| m.from == played[0].to && m.to == played[0].from && !m.is_capture()).collect()
            };
            if cand.is_empty() {
                rep.class("start:rejected");
                return Ok(());
            }
            let m = cand[e.pick(cand.len())];
            played.push(m);
            game.play(m);
        }
        // now the mover can undo m2 and repeat the first position
        if game.cur.legal_moves().is_empty() {
            return Ok(());
        }
        rep.class("start:to-and-fro(repetition available)");
        let d = if game.cur.legal_moves().len() > 24 { (*d).min(2) } else { *d };
        let out = compare(&game.start.to_fen(), &game.moves_uci(), d, budget, rep)?;
        if let Some(s) = out.skipped {
            rep.class(&format!("skipped:{s}"));
        }
        Ok(())
    });
    // the fifty-move clock runs out inside the tree on checking moves: mate nets and check
    // chains with the clock at 100-k, searched to depth k..3
    let fifty = ctx.tier.pick(4800, 32_000) / ctx.shard_count() as u32;
    run_prop(ctx, "c11-fifty-check", fifty, 200, (gen::synth_strategy(), 1u32..=3, 0u32..=2), &mut rep, |(ent, k, extra), rep| {
        let Some(mut p) = super::c12::mate_net_pos(&mut Entropy::new(ent)) else {
            rep.class("start:rejected");
            return Ok(());
        };
        p.hmc = 100 - *k;
        p.fmn = p.fmn.max(60);
        let n = p.legal_moves().len();
        if n == 0 || p.is_valid_start().is_err() {
            return Ok(());
        }
        let mut d = (*k + *extra).min(3);
        if n > 25 {
            d = d.min(2).max(*k.min(&2));
        }
        rep.class("start:fifty-move-clock-about-to-run-out");
        let out = compare(&p.to_fen(), &[], d, budget, rep)?;
        if let Some(s) = out.skipped {
            rep.class(&format!("skipped:{s}"));
        }
        Ok(())
    });
    let cases = ctx.tier.pick(1600, 16_000) / ctx.shard_count() as u32;
    let mix = gen::StartMix { startpos: 1, corpus: 4, synth: 6, pattern: 6 };
    run_prop(ctx, "c11", cases, 300, strategy(), &mut rep, |c, rep| {
        // a quarter of the cases: heavy pieces against an exposed king (long sequences of checks,
        // so extension chains and mate scores are common)
        let from_net = c.game.start[1] % 4 == 0;
        let picked = if from_net { super::c12::mate_net_pos(&mut Entropy::new(&c.game.start[2..])).map(|p| (p, "mate-net".to_string())) } else { gen::start_pos(&c.game.start, &corp, mix) };
        let Some((start, label)) = picked else {
            rep.class("start:rejected");
            return Ok(());
        };
        let start_fen = start.to_fen();
        let mut game = Game::new(start);
        // half of the cases keep the game history, the others search the start itself
        let plies = if c.depth_sel % 2 == 0 { c.game.choices.len() } else { 0 };
        for &ch in c.game.choices.iter().take(plies) {
            let legal = game.cur.legal_moves();
            if legal.is_empty() {
                break;
            }
            let m = gen::choose_move(&game, &legal, c.game.weighted, ch);
            game.play(m);
        }
        while game.cur.legal_moves().is_empty() && !game.moves.is_empty() {
            game.undo();
        }
        if game.cur.legal_moves().is_empty() {
            rep.class("skipped:no-legal-move");
            return Ok(());
        }
        let depth = pick_depth(&game.cur, c.depth_sel);
        rep.class(&format!("start:{}", label.split(':').next().unwrap_or("")));
        let o = compare(&start_fen, &game.moves_uci(), depth, budget, rep)?;
        if let Some(s) = o.skipped {
            rep.class(&format!("skipped:{s}"));
        }
        Ok(())
    });
    rep
}

pub fn replay(ctx: &Ctx, case: &Value) -> Report {
    let mut rep = Report::new();
    let start_fen = case["start_fen"].as_str().unwrap_or("");
    let moves: Vec<String> = case["moves"].as_array().map(|a| a.iter().filter_map(|x| x.as_str().map(String::from)).collect()).unwrap_or_default();
    let depth = case["depth"].as_u64().unwrap_or(1) as u32;
    let _ = ctx;
    match compare(start_fen, &moves, depth, 200_000_000, &mut rep) {
        Ok(o) => {
            if let Some(s) = o.skipped {
                rep.infra_errors.push(format!("replay skipped: {s}"));
            }
        }
        Err(v) => rep.violation(v),
    }
    rep
}

pub const LEVEL: &str = "exploration";
pub const RULE: &str = "cases = (position, game history, depth): every corpus FEN at depth 1-2 (quick) / 1-3 (thorough) plus proptest-generated cases from corpus / synthesised / pattern starts (mate nets, stalemates, fifty-move clocks 97-120, sparse endgames), half of them reached by up to 40 plies of weighted play whose history is kept (so repetitions are remembered); plus very wide nodes (6-9 queens against a king shielded in a corner with a few loose pieces, > 128 pseudo-legal moves) at depth 1-2, pawn endgames (kings, 1-3 pawns near promotion) at depth 3-4, discovered-check set-ups at depth 2-3 and 'check-chain' positions (queens and rooks on an open board with bare kings) at depth 1-2; depth 1-3 everywhere, 4 when the root has <= 14 moves, 5 when <= 8, 6 when <= 5. Further streams aimed at single rules of the look-ahead game: en passant at the horizon (a home pawn whose double push can be captured en passant, in half of the cases also blocking a diagonal pin that the capture re-opens; depth chosen so that the push is the last full-width ply), capturing promotions at the horizon (a 7th-rank pawn forking two pieces on the 8th), the fifty-move clock at 97-99 in mate nets (it runs out inside the tree on checking moves), to-and-fro game histories in unbalanced endings (stepping back into a game position is available at the root or one ply later), and castling that gives check or mate. Every third case is also classified by *rule sensitivity*: the reference is re-run with one rule deliberately broken (quiescence ignores en passant / promotion captures, no stand-pat, no check extension, repetition or fifty-move draw ignored, fifty-move draw skipped when in check, mate not scored by distance) and the case is counted under sensitive:<rule> when the root value changes or a wrong move ties for best - these counts show how many generated cases would expose an engine that got that rule wrong; they never judge the engine. With caching neutralised (hook H1): engine root score == reference unpruned negamax of the engine's look-ahead game on the oracle board, root entry depth == asked depth, and the chosen move's reference value == the root value (ties allowed). Cases whose reference exceeds its node budget are skipped and counted. Non-trivial = the value is not the static evaluation of the root or the tree contained a mate score, repetition draw, fifty-move draw, check extension, stalemate or quiescence capture; distinct by (start, moves, depth).";
pub const ASSUMPTIONS: &[&str] = &[
    "the independent rules oracle; the reference negamax in vf/refsearch.rs (no pruning, no ordering, quiescence memoised by position)",
    "hook H1 empties the cache before every probe; the root's own store happens after the last probe, so the root result is read from the public TRANSPOSITION_TABLE",
    "the root is evaluated as the engine treats it: no draw test and no check extension at the root itself",
];
