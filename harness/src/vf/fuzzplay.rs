//! Byte-driven play: the decoder behind the libFuzzer target `fuzz_play` and behind
//! `rce_check <ID> --replay <raw artifact>`.  Bytes -> u16 stream -> (start position,
//! op sequence); the C01/C02/C03/C04/C07 oracles run inside.

use super::frame::*;
use super::oracle::{self as o, Game, Pos};
use super::{c01, c02, c03, c04, c07, corpus, eng, gen};
use crate::board::Board;
use serde_json::{json, Value};
use std::sync::OnceLock;

static CORPUS: OnceLock<corpus::Corpus> = OnceLock::new();

pub fn set_corpus(c: corpus::Corpus) {
    let _ = CORPUS.set(c);
}

fn corp() -> &'static corpus::Corpus {
    CORPUS.get_or_init(|| {
        let dir = std::env::var("RCE_VERIF_DIR").unwrap_or_else(|_| "/verif".into());
        corpus::load(std::path::Path::new(&dir))
    })
}

pub fn words(data: &[u8]) -> Vec<u16> {
    data.chunks(2).map(|c| if c.len() == 2 { u16::from_le_bytes([c[0], c[1]]) } else { (c[0] as u16) << 8 }).collect()
}

pub struct Decoded {
    pub start_fen: String,
    pub script: Vec<String>,
}

/// Decode into a start position and an op script ("make <uci>" / "unmake" / queries).
pub fn decode(data: &[u8]) -> Option<Decoded> {
    let w = words(data);
    if w.len() < 4 {
        return None;
    }
    // a short header selects the start cheaply: the fuzzer mutates few bytes to move
    // between corpus entries; the rest of the header feeds synth/pattern generation
    let head_len = 24.min(w.len());
    let mut start_ent = vec![0u16; gen::START_LEN];
    start_ent[..head_len].copy_from_slice(&w[..head_len]);
    let (start, _label) = gen::start_pos(&start_ent, corp(), gen::MIX_DEFAULT)?;
    let ops: Vec<(u8, u16)> = w[head_len..].iter().map(|&x| ((x >> 12) as u8 % 12, x << 4 | x >> 12)).collect();
    let case = c02::OpsCase { start: start_ent, ops };
    let (start_fen, script, _) = c02::script_of(&case, corp())?;
    let _ = start;
    Some(Decoded { start_fen, script })
}

/// Run the oracles selected by `props` ("C01","C02","C03","C04","C07" or empty = all).
pub fn run_bytes(data: &[u8], props: &str, rep: &mut Report) -> Result<(), (String, Violation)> {
    let Some(d) = decode(data) else { return Ok(()) };
    let all = props.is_empty();
    let want = |p: &str| all || props.contains(p);
    if want("C02") {
        c02::run_script(&d.start_fen, &d.script, rep).map_err(|v| ("C02".to_string(), v))?;
    }
    if want("C04") {
        let mut t = c04::Table { map: Default::default() };
        c04::run_script(&d.start_fen, &d.script, &mut t, rep).map_err(|v| ("C04".to_string(), v))?;
    }
    if want("C01") || want("C03") || want("C07") {
        let Ok(start) = Pos::from_fen(&d.start_fen) else { return Ok(()) };
        let Ok(mut board) = guard(|| Board::from_fen(&d.start_fen)) else { return Ok(()) };
        let mut game = Game::new(start);
        let mut path: Vec<String> = vec![];
        let mut keys: Vec<u64> = vec![];
        // the forward line of the script (take-backs followed)
        let mut boards: Vec<Board> = vec![];
        for e in &d.script {
            if want("C01") {
                c01::check_node(&game.cur, &board, &d.start_fen, &path).map_err(|v| ("C01".to_string(), v))?;
            }
            if let Some(u) = e.strip_prefix("make ") {
                let Some(m) = game.cur.find_legal(u) else { break };
                let Some(ply) = eng::find_ply(&board, u) else { break };
                boards.push(board.clone());
                keys.push(eng::key_u64(board.zkey));
                if guard(|| board.make_move(ply)).is_err() {
                    break;
                }
                game.play(m);
                path.push(u.to_string());
                if want("C03") {
                    c03::check_state(&board, &game, &keys, &d.start_fen, &path, Some(&m), rep).map_err(|v| ("C03".to_string(), v))?;
                }
            } else if e == "unmake" {
                if let Some(b) = boards.pop() {
                    board = b;
                    game.undo();
                    path.pop();
                    keys.pop();
                }
            }
        }
        if want("C07") {
            let fen = game.cur.to_fen();
            if let Some((wantp, loaded)) = c07::check_fields(&fen, rep).map_err(|v| ("C07".to_string(), v))? {
                c07::check_behaviour(&fen, &wantp, &loaded, Some(&board), &[3, 30000, 60000], rep).map_err(|v| ("C07".to_string(), v))?;
            }
        }
    }
    Ok(())
}

/// Entry used by the libFuzzer target: abort (panic) with a message naming the property.
pub fn fuzz_one(data: &[u8]) {
    let props = std::env::var("RCE_FUZZ_PROPS").unwrap_or_default();
    let mut rep = Report::new();
    if let Err((p, v)) = run_bytes(data, &props, &mut rep) {
        // tolerated known findings (signature list passed by the campaign driver)
        let known = std::env::var("RCE_FUZZ_KNOWN").unwrap_or_default();
        if known.split(',').any(|k| !k.is_empty() && k == format!("{p}:{}", v.sig)) {
            return;
        }
        eprintln!("FUZZ-VIOLATION property={p} sig={} {}", v.sig, v.detail);
        std::process::abort();
    }
}

/// Replay of a raw artifact through the release-mode oracles (the deciding step).
pub fn replay_raw(prop: &str, data: &[u8]) -> Report {
    let mut rep = Report::new();
    rep.eval(1);
    if let Err((p, mut v)) = run_bytes(data, prop, &mut rep) {
        if p == prop {
            v.replay = json!({"raw_hex": data.iter().map(|b| format!("{b:02x}")).collect::<String>(), "decoded": decode(data).map(|d| json!({"start_fen": d.start_fen, "ops": d.script})), "inner": v.replay});
            rep.violation(v);
        }
    }
    rep
}

/// What distinguishes the two libFuzzer targets for the campaign driver.
pub struct Target<'a> {
    pub bin_env: &'a str,
    pub max_len: u32,
    pub seed_dir: std::path::PathBuf,
    pub dict: Option<std::path::PathBuf>,
    pub replay: fn(&str, &[u8]) -> Report,
    pub nontrivial: fn(&str, &[u8]) -> bool,
    pub sample: Option<fn(&[u8]) -> Value>,
    /// true = 16 independent libFuzzer processes sharing the corpus directory (-jobs/-workers)
    /// instead of fork mode: better when one execution costs milliseconds, because fork mode
    /// re-runs its corpus subset at the start of every short job
    pub jobs_mode: bool,
}

fn play_nontrivial(_prop: &str, data: &[u8]) -> bool {
    decode(data).map_or(false, |d| d.script.iter().any(|s| s.starts_with("make ")))
}

/// Run a libFuzzer campaign with the prebuilt target and re-judge every artifact.
pub fn campaign(ctx: &Ctx, prop: &str, rep: &mut Report) {
    let t = Target { bin_env: "RCE_FUZZ_BIN", max_len: 384, seed_dir: ctx.verif.join("corpus").join("fuzz_play"), dict: None, replay: replay_raw, nontrivial: play_nontrivial, sample: None, jobs_mode: false };
    campaign_on(ctx, prop, rep, &t);
}

pub fn campaign_on(ctx: &Ctx, prop: &str, rep: &mut Report, t: &Target) {
    use std::process::{Command, Stdio};
    let Some(bin) = std::env::var_os(t.bin_env).map(std::path::PathBuf::from).filter(|p| p.exists()) else {
        rep.note("libFuzzer campaign skipped: fuzz target not built (see DESIGN.md 10.5)");
        return;
    };
    let secs: u64 = std::env::var("RCE_FUZZ_SECS").ok().and_then(|s| s.parse().ok()).unwrap_or(90);
    let work = ctx.scratch().join(format!("fuzz-{}-{}", prop, std::process::id()));
    let corpus_dir = work.join("corpus");
    let art = work.join("artifacts");
    let _ = std::fs::create_dir_all(&corpus_dir);
    let _ = std::fs::create_dir_all(&art);
    let seed_dir = t.seed_dir.clone();
    let known: Vec<String> = ctx.known.iter().map(|k| format!("{}:{}", k.property, k.sig)).collect();
    let mut cmd = Command::new(&bin);
    if let Some(d) = &t.dict {
        cmd.arg(format!("-dict={}", d.display()));
    }
    if t.jobs_mode {
        cmd.arg("-jobs=16").arg("-workers=16").arg("-reload=1").current_dir(&work);
    } else {
        cmd.arg(format!("-fork={}", 16)).arg("-ignore_crashes=1");
    }
    let out = cmd
        .arg(format!("-max_total_time={secs}"))
        .arg(format!("-seed={}", (ctx.seed % 0xffff_fffe) + 1))
        .arg("-len_control=0")
        .arg(format!("-max_len={}", t.max_len))
        .arg(format!("-artifact_prefix={}/", art.display()))
        .arg(&corpus_dir)
        .arg(&seed_dir)
        .env("RCE_FUZZ_PROPS", prop)
        .env("RCE_FUZZ_KNOWN", known.join(","))
        .env("RCE_VERIF_DIR", &ctx.verif)
        .stdin(Stdio::null())
        .stdout(Stdio::null())
        .stderr(Stdio::piped())
        .output();
    match out {
        Err(e) => rep.note(format!("libFuzzer campaign could not start: {e}")),
        Ok(o) => {
            let mut err = String::from_utf8_lossy(&o.stderr).to_string();
            let mut job_execs = 0u64;
            if t.jobs_mode {
                // every job writes its own log; executions add up over the jobs
                if let Ok(rd) = std::fs::read_dir(&work) {
                    for f in rd.flatten() {
                        let name = f.file_name().to_string_lossy().to_string();
                        if name.starts_with("fuzz-") && name.ends_with(".log") {
                            if let Ok(text) = std::fs::read_to_string(f.path()) {
                                let mut last = 0u64;
                                for l in text.lines() {
                                    if let Some(rest) = l.strip_prefix('#') {
                                        if let Some(n) = rest.split(|c: char| !c.is_ascii_digit()).next().and_then(|n| n.parse::<u64>().ok()) {
                                            last = last.max(n);
                                        }
                                    }
                                }
                                job_execs += last;
                                err.push_str(&text);
                            }
                        }
                    }
                }
            }
            // "#12345: cov: 678 ft: 910 corp: 11 exec/s 345 ..."
            let mut execs = 0u64;
            let mut cov = 0u64;
            for l in err.lines() {
                if let Some(rest) = l.strip_prefix('#') {
                    let digits: String = rest.chars().take_while(|c| c.is_ascii_digit()).collect();
                    if let Ok(n) = digits.parse::<u64>() {
                        execs = execs.max(n);
                        if let Some(c) = rest.split_whitespace().skip_while(|t| *t != "cov:").nth(1) {
                            cov = cov.max(c.parse().unwrap_or(0));
                        }
                    }
                }
            }
            if t.jobs_mode {
                execs = job_execs;
            }
            if execs == 0 {
                let tail: Vec<&str> = err.lines().rev().take(6).collect();
                rep.note(format!("libFuzzer reported no executions (status {:?}); last stderr lines: {:?}", o.status, tail));
            }
            rep.class_n("libfuzzer:executions", execs);
            rep.eval(execs);
            rep.extra.insert("libfuzzer".into(), json!({"executions": execs, "coverage_counters": cov, "seconds": secs, "forks": 16, "corpus_files": std::fs::read_dir(&corpus_dir).map(|d| d.count()).unwrap_or(0)}));
        }
    }
    // artifacts: re-judge each in release mode; only that decides
    if let Ok(rd) = std::fs::read_dir(&art) {
        for f in rd.flatten() {
            if let Ok(data) = std::fs::read(f.path()) {
                rep.class("libfuzzer:artifacts-rejudged");
                let r = (t.replay)(prop, &data);
                for v in r.violations {
                    rep.violation(v);
                }
            }
        }
    }
    // distinct non-trivial inputs the fuzzer kept (coverage-increasing corpus entries)
    if let Ok(rd) = std::fs::read_dir(&corpus_dir) {
        for f in rd.flatten() {
            if let Ok(data) = std::fs::read(f.path()) {
                if (t.nontrivial)(prop, &data) {
                    rep.nontrivial(o::hash_bytes(&data, 0xF022));
                    if let Some(sf) = t.sample {
                        rep.sample_for("libfuzzer-corpus", || sf(&data));
                    }
                }
            }
        }
    }
    let _ = std::fs::remove_dir_all(&work);
}
