//! Seed positions: every FEN in the repository's tests and bench, the standard perft
//! suite, and hand-written pattern templates.  Each is validated by the oracle at load.

use super::oracle::Pos;
use std::path::Path;

#[derive(Clone, Debug, Default)]
pub struct Corpus {
    pub fens: Vec<String>,
    pub tags: Vec<String>,
    pub positions: Vec<Pos>,
    pub rejected: Vec<(String, String)>,
}

impl Corpus {
    pub fn len(&self) -> usize {
        self.fens.len()
    }
    pub fn with_tag_prefix(&self, prefix: &str) -> Vec<usize> {
        (0..self.len()).filter(|&i| self.tags[i].starts_with(prefix)).collect()
    }
}

pub fn load(verif: &Path) -> Corpus {
    let mut c = Corpus::default();
    let text = std::fs::read_to_string(verif.join("corpus").join("fens.txt")).unwrap_or_default();
    for line in text.lines() {
        let line = line.trim();
        if line.is_empty() || line.starts_with('#') {
            continue;
        }
        let (tag, fen) = match line.split_once('|') {
            Some((t, f)) => (t.trim(), f.trim()),
            None => ("untagged", line),
        };
        match Pos::from_fen(fen).and_then(|p| p.is_valid_start().map(|_| p)) {
            Ok(p) => {
                // the corpus stores 4-field strings of the repo tests too; normalise
                c.fens.push(p.to_fen());
                c.tags.push(tag.to_string());
                c.positions.push(p);
            }
            Err(e) => c.rejected.push((fen.to_string(), e)),
        }
    }
    c
}
