//! Reference value of the engine's look-ahead game: plain negamax on the oracle board,
//! no pruning, no move ordering, no cache (C11's oracle).
//!
//!   ref(n, d, ply): half-move clock >= 100 -> 0; position among the earlier positions of
//!   game + path -> 0; in check -> d+1; d == 0 -> q(n); no legal move -> MIN+ply if in
//!   check else 0; else max over legal moves of -ref(child, d-1, ply+1).
//!   q(n) = max(material from the mover's side, max over legal captures of -q(child)).
//! The root is treated as the engine treats it: searched to the nominal depth with no
//! draw test and no extension at the root itself.

use super::oracle::{self as o, Mv, Pos, PosId};
use std::collections::HashMap;

pub const MIN: i32 = i16::MIN as i32;

pub fn material(p: &Pos) -> i32 {
    let mut s = 0i32;
    for &c in p.sq.iter() {
        if c == 0 {
            continue;
        }
        let v = match o::pt(c) {
            o::Q => 900,
            o::R => 500,
            o::B => 300,
            o::N => 300,
            o::P => 100,
            _ => 0,
        };
        if o::is_white(c) == p.wtm {
            s += v;
        } else {
            s -= v;
        }
    }
    s
}

#[derive(Default)]
pub struct Stats {
    pub nodes: u64,
    pub qnodes: u64,
    pub mate_scores: u64,
    pub repetition_draws: u64,
    pub fifty_draws: u64,
    pub check_extensions: u64,
    pub q_captures: u64,
    pub stalemates: u64,
    pub q_ep: u64,
    pub q_promo: u64,
}

/// Deliberately wrong variants of the reference ("flaws"), one per rule of the look-ahead
/// game.  They never judge the engine: a case whose value changes under a flaw is counted
/// as *sensitive* to that rule (class `sensitive:<flaw>`), which is how the evidence shows
/// that the generated cases would expose an engine that got that rule wrong.
pub const FLAWS: [(u8, &str); 8] = [
    (1, "quiescence-ignores-en-passant"),
    (2, "fifty-move-draw-skipped-when-in-check"),
    (3, "quiescence-ignores-promotion-captures"),
    (4, "repetition-draw-ignored"),
    (5, "no-check-extension"),
    (6, "mate-not-scored-by-distance"),
    (7, "fifty-move-draw-ignored"),
    (8, "no-stand-pat"),
];

pub struct Ref {
    pub flaw: u8,
    pub qmemo: HashMap<u128, i32>,
    pub path: Vec<PosId>,
    pub budget: u64,
    pub stats: Stats,
    pub exceeded: bool,
    pub cross_checked: u64,
    pub harness_fault: Option<String>,
}

/// The definition itself: max(stand pat, max over legal captures of -q(child)), no pruning.
pub fn q_plain(p: &Pos, left: &mut i64) -> Option<i32> {
    *left -= 1;
    if *left < 0 {
        return None;
    }
    let mut best = material(p);
    for m in p.legal_moves() {
        if m.is_capture() {
            let v = -q_plain(&p.make(m), left)?;
            best = best.max(v);
        }
    }
    Some(best)
}

impl Ref {
    pub fn new(earlier: &[PosId], budget: u64) -> Ref {
        Ref { flaw: 0, qmemo: HashMap::new(), path: earlier.to_vec(), budget, stats: Stats::default(), exceeded: false, cross_checked: 0, harness_fault: None }
    }

    /// Exact quiescence value of `p`: full-window fail-soft alpha-beta over the legal
    /// captures (exact at the top), memoised by position.  Every 64th new position is
    /// cross-checked against the plain unpruned definition when that finishes within a
    /// small budget; a disagreement is a harness fault.
    pub fn q(&mut self, p: &Pos) -> i32 {
        let id = p.pos_id().fp128();
        if let Some(&v) = self.qmemo.get(&id) {
            return v;
        }
        let v = self.qab(p, -1_000_000, 1_000_000);
        if self.exceeded {
            return 0;
        }
        if self.flaw == 0 && self.qmemo.len() % 64 == 0 {
            let mut left = 600i64;
            if let Some(u) = q_plain(p, &mut left) {
                self.cross_checked += 1;
                if u != v {
                    self.harness_fault = Some(format!("quiescence alpha-beta {v} != plain {u} at {}", p.to_fen()));
                }
            }
        }
        self.qmemo.insert(id, v);
        v
    }

    fn qab(&mut self, p: &Pos, mut alpha: i32, beta: i32) -> i32 {
        self.stats.qnodes += 1;
        if self.stats.nodes + self.stats.qnodes > self.budget {
            self.exceeded = true;
            return 0;
        }
        let mut best = material(p);
        let mut caps: Vec<Mv> = p.legal_moves().into_iter().filter(|m| m.is_capture()).collect();
        if self.flaw == 0 {
            self.stats.q_ep += caps.iter().filter(|m| m.is_ep()).count() as u64;
            self.stats.q_promo += caps.iter().filter(|m| m.is_promo()).count() as u64;
        }
        match self.flaw {
            1 => caps.retain(|m| !m.is_ep()),
            3 => caps.retain(|m| !m.is_promo()),
            8 if !caps.is_empty() => best = -1_000_000,
            _ => {}
        }
        if best >= beta {
            return best;
        }
        if best > alpha {
            alpha = best;
        }
        if caps.is_empty() {
            return best;
        }
        let val = |c: u8| match o::pt(c) {
            o::Q => 9,
            o::R => 5,
            o::B | o::N => 3,
            o::P => 1,
            _ => 0,
        };
        caps.sort_by_key(|m| -(val(p.sq[m.to as usize]) * 16 - val(p.sq[m.from as usize]) + if m.promo != 0 { 100 } else { 0 }));
        for m in caps {
            self.stats.q_captures += 1;
            let v = -self.qab(&p.make(m), -beta, -alpha);
            if self.exceeded {
                return 0;
            }
            if v > best {
                best = v;
                if v > alpha {
                    alpha = v;
                    if alpha >= beta {
                        break;
                    }
                }
            }
        }
        best
    }

    pub fn ab(&mut self, p: &Pos, mut d: u32, ply: u32) -> i32 {
        self.stats.nodes += 1;
        if self.stats.nodes + self.stats.qnodes > self.budget {
            self.exceeded = true;
            return 0;
        }
        let in_check = p.in_check(p.wtm);
        if p.hmc >= 100 && self.flaw != 7 && !(self.flaw == 2 && in_check) {
            self.stats.fifty_draws += 1;
            return 0;
        }
        let id = p.pos_id();
        if self.path.contains(&id) && self.flaw != 4 {
            self.stats.repetition_draws += 1;
            return 0;
        }
        if in_check && self.flaw != 5 {
            d += 1;
            self.stats.check_extensions += 1;
        }
        if d == 0 {
            return self.q(p);
        }
        let legal = p.legal_moves();
        if legal.is_empty() {
            if in_check {
                self.stats.mate_scores += 1;
                return if self.flaw == 6 { MIN } else { MIN + ply as i32 };
            }
            self.stats.stalemates += 1;
            return 0;
        }
        self.path.push(id);
        let mut best = i32::MIN;
        for m in legal {
            let v = -self.ab(&p.make(m), d - 1, ply + 1);
            if v > best {
                best = v;
            }
            if self.exceeded {
                break;
            }
        }
        self.path.pop();
        best
    }

    /// Value of each root move and the root value.
    pub fn root(&mut self, p: &Pos, depth: u32) -> Option<(i32, Vec<(Mv, i32)>)> {
        let legal = p.legal_moves();
        if legal.is_empty() {
            return None;
        }
        let id = p.pos_id();
        self.path.push(id);
        let mut vals = vec![];
        let mut best = i32::MIN;
        for m in legal {
            let v = -self.ab(&p.make(m), depth - 1, 1);
            if self.exceeded {
                self.path.pop();
                return None;
            }
            vals.push((m, v));
            best = best.max(v);
        }
        self.path.pop();
        Some((best, vals))
    }
}
