//! C13 - an interrupted search leaves nothing behind that can mislead a later one.
//!
//! Fault enumeration: for each (position, depth) the uninterrupted search's cache-write
//! log W is recorded through hook H2; then the search is repeated with **every** node
//! budget N = 1..S (S = size of the full search), with a stop injected at the k-th cache
//! write for every k, and with a few tiny movetimes.  Until the cut an interrupted run
//! executes exactly what the uninterrupted run does, so its log must be an element-wise
//! prefix of W, and under a node budget N no write may carry a node counter >= N.

use super::frame::*;
use super::oracle::{self as o, Game, Pos};
use super::{corpus, eng, gen, srch};
use crate::board::transposition_table::{Bounds, TRANSPOSITION_TABLE};
use crate::board::Board;
use crate::search::limits::SearchLimits;
use crate::verif_hooks::{self, TtWrite};
use proptest::prelude::*;
use serde_json::{json, Value};
use std::sync::atomic::{AtomicU64, Ordering};
use std::sync::{Arc, Mutex};

#[derive(Clone, Debug, PartialEq, Eq)]
pub struct Entry {
    pub site: u8,
    pub key: u64,
    pub score: i16,
    pub depth: u8,
    pub bound: u8,
    pub mv: String,
    pub nodes: u64,
    pub running: bool,
}

impl Entry {
    fn show(&self) -> String {
        format!(
            "site={} key={:016x} score={} depth={} bound={} move={} nodes={}",
            ["root", "cutoff", "node-end"][self.site as usize % 3],
            self.key,
            self.score,
            self.depth,
            ["exact", "lower", "upper"][self.bound as usize % 3],
            self.mv,
            self.nodes
        )
    }
}

/// Run one search with a recorder installed; `stop_at` = clear the running flag at the
/// k-th write (1-based).
pub fn logged_search(board: &Board, depth: u8, limits: Option<SearchLimits>, stop_at: Option<u64>) -> (Vec<Entry>, srch::SearchResult) {
    logged_search_async(board, depth, limits, stop_at, None)
}

/// `async_stop_ns` = a second thread clears the running flag after spinning that long.
pub fn logged_search_async(board: &Board, depth: u8, limits: Option<SearchLimits>, stop_at: Option<u64>, async_stop_ns: Option<u64>) -> (Vec<Entry>, srch::SearchResult) {
    let log: Arc<Mutex<Vec<Entry>>> = Arc::new(Mutex::new(vec![]));
    let l2 = log.clone();
    let count = AtomicU64::new(0);
    verif_hooks::set_recorder(Some(Box::new(move |w: TtWrite| -> bool {
        let e = TRANSPOSITION_TABLE.read().unwrap_or_else(std::sync::PoisonError::into_inner).get(&w.key).copied();
        let k = count.fetch_add(1, Ordering::SeqCst) + 1;
        if let Some(e) = e {
            l2.lock().unwrap().push(Entry {
                site: w.site,
                key: eng::key_u64(w.key),
                score: e.score,
                depth: e.depth,
                bound: match e.bound {
                    Bounds::Exact => 0,
                    Bounds::Lower => 1,
                    Bounds::Upper => 2,
                },
                mv: eng::ply_uci(&e.best_ply),
                nodes: w.nodes,
                running: w.running,
            });
        }
        stop_at == Some(k)
    })));
    srch::set_tt_off(false);
    srch::clear_tt();
    let mut stopper: Option<std::thread::JoinHandle<()>> = None;
    let res = srch::run_search_with(board, Some(depth), limits, |running| {
        if let Some(ns) = async_stop_ns {
            stopper = Some(std::thread::spawn(move || {
                let t = std::time::Instant::now();
                while (t.elapsed().as_nanos() as u64) < ns {
                    std::hint::spin_loop();
                }
                running.store(false, Ordering::Relaxed);
            }));
        }
    });
    if let Some(h) = stopper {
        let _ = h.join();
    }
    verif_hooks::set_recorder(None);
    // what the cache really holds at the end (catches writes that bypass the insert sites)
    let mut table: Vec<(u64, i16, u8, u8, String)> = TRANSPOSITION_TABLE
        .read()
        .unwrap_or_else(std::sync::PoisonError::into_inner)
        .iter()
        .map(|(k, e)| {
            (
                eng::key_u64(*k),
                e.score,
                e.depth,
                match e.bound {
                    Bounds::Exact => 0,
                    Bounds::Lower => 1,
                    Bounds::Upper => 2,
                },
                eng::ply_uci(&e.best_ply),
            )
        })
        .collect();
    table.sort();
    *LAST_TABLE.lock().unwrap() = table;
    srch::clear_tt();
    let v = log.lock().unwrap().clone();
    (v, res)
}

/// final cache contents of the most recent `logged_search`
pub static LAST_TABLE: Mutex<Vec<(u64, i16, u8, u8, String)>> = Mutex::new(Vec::new());

/// The cache an interrupted run leaves behind must be exactly what its own write log
/// implies (last write per key) - nothing modified in place, nothing written unobserved.
pub fn judge_table(l: &[Entry], fen: &str, depth: u8, cut: &str, n: u64) -> Result<(), Violation> {
    let mut want: std::collections::BTreeMap<u64, (i16, u8, u8, String)> = Default::default();
    for e in l {
        want.insert(e.key, (e.score, e.depth, e.bound, e.mv.clone()));
    }
    let got = LAST_TABLE.lock().unwrap().clone();
    let want_v: Vec<(u64, i16, u8, u8, String)> = want.into_iter().map(|(k, v)| (k, v.0, v.1, v.2, v.3)).collect();
    if got != want_v {
        let diff = got.iter().find(|g| !want_v.contains(g)).map(|g| format!("cache holds key={:016x} score={} depth={} bound={} move={}", g.0, g.1, g.2, ["exact", "lower", "upper"][g.3 as usize % 3], g.4)).unwrap_or_else(|| "an entry of the log is missing from the cache".into());
        return Err(Violation::new(
            "table",
            &format!("table/differs-from-write-log/{}", if cut == "nodes" { "node-budget" } else { cut }),
            format!("search of {fen} depth {depth} cut by {cut}={n}: the cache left behind is not what the observed writes produce ({diff}): something was modified in place or written past the insert sites"),
            cj(fen, depth, cut, n),
        ));
    }
    Ok(())
}

fn cj(fen: &str, depth: u8, cut: &str, n: u64) -> Value {
    json!({"fen": fen, "depth": depth, "cut": cut, "n": n})
}

/// Compare an interrupted log with the uninterrupted one.
pub fn judge(w: &[Entry], l: &[Entry], fen: &str, depth: u8, cut: &str, n: u64) -> Result<(), Violation> {
    if cut == "nodes" {
        if let Some(e) = l.iter().find(|e| e.nodes >= n) {
            let site = ["root", "cutoff", "node-end"][e.site as usize % 3];
            return Err(Violation::new(
                "after-cut",
                &format!("after-cut/{site}/node-budget"),
                format!("search of {fen} depth {depth} with node budget {n}: cache write after the budget tripped: {}", e.show()),
                cj(fen, depth, cut, n),
            ));
        }
    }
    for (i, e) in l.iter().enumerate() {
        match w.get(i) {
            Some(x) if x.key == e.key && x.score == e.score && x.depth == e.depth && x.bound == e.bound && x.mv == e.mv && x.nodes == e.nodes && x.site == e.site => {}
            other => {
                let site = ["root", "cutoff", "node-end"][e.site as usize % 3];
                let trig = match cut {
                    "nodes" => "node-budget",
                    "stop" => "stop-at-write",
                    "async-stop" => "stop-from-another-thread",
                    "clock" => "game-clock",
                    _ => "movetime",
                };
                return Err(Violation::new(
                    "not-prefix",
                    &format!("not-prefix/{site}/{trig}"),
                    format!(
                        "search of {fen} depth {depth} cut by {cut}={n}: write #{i} is {} but the uninterrupted search wrote {} there",
                        e.show(),
                        other.map_or("nothing".to_string(), |x| x.show())
                    ),
                    cj(fen, depth, cut, n),
                ));
            }
        }
    }
    Ok(())
}

/// All interruption points of one (position, depth).
pub fn enumerate(fen: &str, depth: u8, max_full: u64, rep: &mut Report, ctx: &Ctx) -> Result<(), Violation> {
    let Ok(board) = guard(|| Board::from_fen(fen)) else { return Ok(()) };
    let (w, full) = logged_search(&board, depth, None, None);
    if full.panicked.is_some() {
        return Ok(()); // C09's subject
    }
    let s = full.nodes;
    if s < 2 || w.is_empty() {
        rep.class("skipped:trivial-search");
        return Ok(());
    }
    let all = s <= max_full;
    rep.class(if all { "position:all-budgets" } else { "position:sampled-budgets" });
    rep.class_n("full-search-nodes", s);
    rep.class_n("full-search-writes", w.len() as u64);
    let mut first: Option<Violation> = None;
    let mut note = |v: Violation, rep: &mut Report| {
        if let Some(k) = ctx.is_known(&v.sig) {
            rep.known(&v.sig, &k.text);
        } else if first.is_none() {
            first = Some(v);
        }
    };
    // every node budget
    let step = if all { 1 } else { (s / max_full).max(1) };
    let mut n = 1;
    while n <= s {
        let (l, _r) = logged_search(&board, depth, Some(SearchLimits::new().nodes(Some(n))), None);
        rep.eval(1);
        let pending = w.iter().any(|e| e.nodes >= n);
        if n < s && pending {
            rep.nontrivial(o::hash_str(&format!("{fen}|{depth}|n{n}")));
        }
        if let Err(v) = judge(&w, &l, fen, depth, "nodes", n).and_then(|_| judge_table(&l, fen, depth, "nodes", n)) {
            rep.class("cut:nodes:violating");
            note(v, rep);
        }
        rep.class("cut:nodes");
        n += step;
    }
    // stop at the k-th write
    let kstep = (w.len() as u64 / 400).max(1);
    let mut k = 1u64;
    while k <= w.len() as u64 {
        let (l, _r) = logged_search(&board, depth, None, Some(k));
        rep.eval(1);
        if k < w.len() as u64 {
            rep.nontrivial(o::hash_str(&format!("{fen}|{depth}|k{k}")));
        }
        if let Err(v) = judge(&w, &l, fen, depth, "stop", k).and_then(|_| judge_table(&l, fen, depth, "stop", k)) {
            rep.class("cut:stop:violating");
            note(v, rep);
        }
        rep.class("cut:stop");
        k += kstep;
    }
    rep.sample(|| json!({"fen": fen, "depth": depth, "full_search_nodes": s, "cache_writes": w.len(), "budgets_run": if all { s } else { s / step }, "first_writes": w.iter().take(3).map(|e| e.show()).collect::<Vec<_>>()}));
    match first {
        Some(v) => Err(v),
        None => Ok(()),
    }
}

pub const SHARDS: usize = 16;

pub fn run(ctx: &Ctx) -> Report {
    if ctx.shard.is_none() {
        let mut r = run_sharded(ctx, SHARDS, SHARDS);
        r.exhaustive = Some(r.classes.get("position:sampled-budgets").copied().unwrap_or(0) == 0);
        return r;
    }
    let mut rep = Report::new();
    let corp = corpus::load(&ctx.verif);
    let max_full = ctx.tier.pick(1500u64, 6000);
    // fixed positions (sharded): sparse corpus entries at depth 2 and 3
    let sparse: Vec<&String> = corp.fens.iter().zip(corp.positions.iter()).filter(|(_, p)| p.material_count() <= 12 && !p.legal_moves().is_empty()).map(|(f, _)| f).collect();
    let take = ctx.tier.pick(32, 400);
    for (i, fen) in sparse.iter().enumerate().take(take) {
        if i % ctx.shard_count() != ctx.shard_index() {
            continue;
        }
        let d = if i % 2 == 0 { 2 } else { 3 };
        if let Err(v) = enumerate(fen, d, max_full, &mut rep, ctx) {
            rep.violation(v);
        }
    }
    // deeper searches (depth 4) of a few sparse positions, budgets strided when the search is large:
    // re-searches and cut-offs nest more deeply there
    if ctx.tier == Tier::Thorough || ctx.shard_index() < 6 {
        let pick = (ctx.shard_index() * 3 + 1) % sparse.len().max(1);
        if let Some(fen) = sparse.get(pick) {
            if let Err(v) = enumerate(fen, 4, max_full, &mut rep, ctx) {
                rep.violation(v);
            }
            rep.class("position:depth-4");
        }
    }
    // generated sparse positions
    let cases = ctx.tier.pick(32, 2400) / ctx.shard_count() as u32;
    let strat = (gen::synth_strategy(), 2u8..=3);
    run_prop(ctx, "c13", cases.max(1), 40, strat, &mut rep, |(ent, d), rep| {
        let Some(p) = gen::synth_pos(&mut Entropy::new(ent)) else { return Ok(()) };
        if p.material_count() > 10 || p.legal_moves().is_empty() {
            rep.class("skipped:too-dense");
            return Ok(());
        }
        enumerate(&p.to_fen(), *d, max_full, rep, ctx)
    });
    // stops that arrive from ANOTHER thread at an arbitrary moment (not at a cache write, not at
    // a node count): a second thread clears the running flag after spinning a generated time
    // between 0 and the duration of the uninterrupted search.  Whatever the moment, the log of
    // the interrupted run must be a prefix of the uninterrupted one.  (The moment is real time,
    // so a replay re-draws it; the oracle holds for every moment.)
    {
        let trials = ctx.tier.pick(9600u32, 160_000) / ctx.shard_count() as u32;
        let pool: Vec<&String> = sparse.iter().take(48).copied().collect();
        if !pool.is_empty() {
            let per_pos = 60u32;
            let mut done = 0u32;
            let mut k = ctx.shard_index();
            while done < trials {
                let fen = pool[k % pool.len()];
                k += ctx.shard_count();
                let Ok(board) = guard(|| Board::from_fen(fen)) else { continue };
                let d = 3u8;
                let t0 = std::time::Instant::now();
                let (w, full) = logged_search(&board, d, None, None);
                let dur = t0.elapsed().as_nanos() as u64;
                if full.panicked.is_some() || w.len() < 4 {
                    done += 1;
                    continue;
                }
                let strat = proptest::collection::vec(any::<u16>(), 2);
                let fen2 = fen.to_string();
                run_prop(ctx, &format!("c13-async-{k}"), per_pos, 0, strat, &mut rep, |ent, rep| {
                    let frac = (ent[0] as u64) << 16 | ent[1] as u64;
                    let ns = dur * frac / (1u64 << 32);
                    let (l, _r) = logged_search_async(&board, d, None, None, Some(ns));
                    rep.eval(1);
                    rep.class("cut:async-stop");
                    if l.len() < w.len() {
                        rep.class("cut:async-stop:landed-inside-the-search");
                        rep.nontrivial(o::hash_str(&format!("{fen2}|{d}|async{}", l.len())));
                    }
                    judge(&w, &l, &fen2, d, "async-stop", ns).and_then(|_| judge_table(&l, &fen2, d, "async-stop", ns))
                });
                done += per_pos;
            }
        }
    }
    // a few clock-cut runs on larger searches (cut point depends on timing; the oracle
    // holds for any cut)
    // movetime and game-clock cuts (wtime/btime end the search through the time-management
    // timer, a different branch of the limit test than movetime)
    {
        let bench = corp.with_tag_prefix("bench");
        let fen = &corp.fens[bench[(ctx.shard_index() * 5) % bench.len()]];
        if let Ok(board) = guard(|| Board::from_fen(fen)) {
            let d = 5u8;
            let (w, full) = logged_search(&board, d, None, None);
            if full.panicked.is_none() && full.nodes > 20_000 {
                for ms in [1u128, 2, 3, 5] {
                    for kind in ["movetime", "clock", "clock-uneven"] {
                        let limits = if kind == "movetime" {
                            SearchLimits::new().movetime(Some(ms))
                        } else if kind == "clock" {
                            // timer = time/20 + inc/2
                            SearchLimits::new().white_time(Some(ms * 20)).black_time(Some(ms * 20))
                        } else {
                            // the two sides' clocks differ widely (only the mover's matters)
                            let (mine, theirs) = (ms * 20, 3_600_000u128);
                            if board.current_turn == crate::board::piece::Color::White {
                                SearchLimits::new().white_time(Some(mine)).black_time(Some(theirs))
                            } else {
                                SearchLimits::new().white_time(Some(theirs)).black_time(Some(mine))
                            }
                        };
                        let kind = if kind == "clock-uneven" { "clock" } else { kind };
                        let (l, _r) = logged_search(&board, d, Some(limits), None);
                        rep.eval(1);
                        rep.class(&format!("cut:{kind}"));
                        if l.len() < w.len() && !l.is_empty() {
                            rep.nontrivial(o::hash_str(&format!("{fen}|{d}|{kind}{ms}")));
                        }
                        if let Err(v) = judge(&w, &l, fen, d, kind, ms as u64).and_then(|_| judge_table(&l, fen, d, kind, ms as u64)) {
                            if let Some(k) = ctx.is_known(&v.sig) {
                                rep.known(&v.sig, &k.text);
                            } else {
                                rep.violation(v);
                            }
                        }
                    }
                }
            }
        }
    }
    rep
}

pub fn replay(_ctx: &Ctx, case: &Value) -> Report {
    let mut rep = Report::new();
    let fen = case["fen"].as_str().unwrap_or("");
    let depth = case["depth"].as_u64().unwrap_or(2) as u8;
    let cut = case["cut"].as_str().unwrap_or("nodes");
    let n = case["n"].as_u64().unwrap_or(1);
    let Ok(board) = guard(|| Board::from_fen(fen)) else {
        rep.infra_errors.push("bad fen".into());
        return rep;
    };
    if cut == "async-stop" {
        // the moment of an asynchronous stop cannot be reproduced; sweep the whole duration instead
        let t0 = std::time::Instant::now();
        let (w, _) = logged_search(&board, depth, None, None);
        let dur = t0.elapsed().as_nanos() as u64;
        for i in 0..6000u64 {
            let ns = dur * (i % 3000) / 3000;
            let (l, _) = logged_search_async(&board, depth, None, None, Some(ns));
            rep.eval(1);
            if let Err(v) = judge(&w, &l, fen, depth, cut, ns).and_then(|_| judge_table(&l, fen, depth, cut, ns)) {
                rep.violation(v);
                break;
            }
        }
        return rep;
    }
    let (w, _) = logged_search(&board, depth, None, None);
    let (l, _) = match cut {
        "nodes" => logged_search(&board, depth, Some(SearchLimits::new().nodes(Some(n))), None),
        "stop" => logged_search(&board, depth, None, Some(n)),
        "clock" => logged_search(&board, depth, Some(SearchLimits::new().white_time(Some(n as u128 * 20)).black_time(Some(n as u128 * 20))), None),
        _ => logged_search(&board, depth, Some(SearchLimits::new().movetime(Some(n as u128))), None),
    };
    rep.eval(1);
    if let Err(v) = judge(&w, &l, fen, depth, cut, n).and_then(|_| judge_table(&l, fen, depth, cut, n)) {
        rep.violation(v);
    }
    rep
}

pub const LEVEL: &str = "fault_enumeration";
pub const RULE: &str = "for each (position, depth 2-3, and depth 4 for a few) - sparse corpus positions and proptest-synthesised sparse positions - the uninterrupted search's cache-write log W (hook H2: key, stored entry read back from the table, node counter) is recorded, then the search is re-run with EVERY node budget N = 1..S (S = nodes of the full search; all of them while S <= 1500 quick / 6000 thorough, an evenly strided sample beyond), with stop injected at the k-th cache write for every k, and with movetime 1-5 ms and game clocks of 20-100 ms (wtime/btime: the time-management timer) on a larger search per shard, and with stops that arrive from ANOTHER thread at a generated moment between 0 and the duration of the uninterrupted search (9600 quick / 160000 thorough trials over 48 sparse positions at depth 3; the moment is real time, the oracle holds for every moment); cache cleared before each run. Oracle: the interrupted run's log is an element-wise equal (entry and node counter) prefix of W, and under a budget N no write carries a node counter >= N; and the cache contents left behind (read back in full) equal what the run's own write log implies (last write per key), so in-place modifications and writes that bypass the three insert sites are seen too. Non-trivial = a cut strictly inside the search with at least one write of W still pending above it; distinct by (position, depth, cut). exhaustive=true when every position had all its budgets run.";
pub const ASSUMPTIONS: &[&str] = &[
    "the search is deterministic (C16) and limits are only read, so until the cut the interrupted run executes what the uninterrupted run does",
    "hook H2 reports every cache insert (three sites in src/search.rs); writes elsewhere are caught by comparing the final cache contents with the write log",
    "blind spot: a post-cut write that coincides in content and node counter with the uninterrupted one is indistinguishable (and harmless)",
    "the bestmove panic under tiny limits (C09's subject) is caught and ignored here: it happens after all cache traffic",
];
