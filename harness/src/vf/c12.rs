//! C12 - with caching on, short forced mates are found and avoidable ones avoided.
//!
//! Positions are classified by the oracle's exhaustive 3-ply analysis (mate in 1, forced
//! mate in 2, avoidable mate-in-1 threat); the engine searches them on a *live* cache:
//! a generated history of 1..4 consecutive searches of the same position at depths 1..5
//! (cache never cleared in between), the last one at depth 3 or 4.  The chosen move must
//! satisfy the class predicate.

use super::frame::*;
use super::mate::{self, Class};
use super::oracle::{self as o, Game, Mv, Pos};
use super::{corpus, eng, gen, srch};
use crate::board::Board;
use proptest::prelude::*;
use serde_json::{json, Value};

/// Mate-net generator: a king near the edge, heavy pieces against it, a few defenders.
pub fn mate_net_pos(e: &mut Entropy) -> Option<Pos> {
    let mut p = Pos::empty();
    // defender = black (mirrored later at random)
    let edge: Vec<usize> = (0..64).filter(|&s| o::rank_of(s) == 7 || (o::rank_of(s) >= 5 && (o::file_of(s) == 0 || o::file_of(s) == 7))).collect();
    let bk = edge[e.pick(edge.len())];
    p.sq[bk] = o::mk(false, o::K);
    let wk_c: Vec<usize> = (0..64).filter(|&s| (o::file_of(s) - o::file_of(bk)).abs().max((o::rank_of(s) - o::rank_of(bk)).abs()) >= 2).collect();
    let wk = wk_c[e.pick(wk_c.len())];
    p.sq[wk] = o::mk(true, o::K);
    let place = |p: &mut Pos, e: &mut Entropy, code: u8, near: Option<usize>| {
        let c: Vec<usize> = (0..64)
            .filter(|&s| {
                p.sq[s] == 0
                    && (o::pt(code) != o::P || (1..=6).contains(&o::rank_of(s)))
                    && near.map_or(true, |k| (o::file_of(s) - o::file_of(k)).abs() <= 1 && (o::rank_of(s) - o::rank_of(k)).abs() <= 2)
            })
            .collect();
        if !c.is_empty() {
            let s = c[e.pick(c.len())];
            p.sq[s] = code;
        }
    };
    const ATT: [&[u8]; 10] = [&[o::Q], &[o::R], &[o::R, o::R], &[o::Q, o::R], &[o::Q, o::B], &[o::Q, o::N], &[o::R, o::B], &[o::R, o::N], &[o::Q, o::Q], &[o::R, o::R, o::N]];
    for &t in ATT[e.pick(ATT.len())] {
        place(&mut p, e, o::mk(true, t), None);
    }
    for _ in 0..e.pick(3) {
        place(&mut p, e, o::mk(true, o::P), None);
    }
    // promotion motif: an attacker's pawn on the 7th rank (under-promotions can be the key)
    if e.chance(1, 3) {
        let f = e.pick(8) as i32;
        if p.sq[o::sq(f, 6)] == 0 && p.sq[o::sq(f, 7)] == 0 {
            p.sq[o::sq(f, 6)] = o::mk(true, o::P);
        }
    }
    // defenders: pawn shield near the king, maybe a piece
    for _ in 0..e.pick(4) {
        place(&mut p, e, o::mk(false, o::P), Some(bk));
    }
    for _ in 0..e.pick(3) {
        let t = [o::N, o::B, o::R, o::Q, o::P][e.pick(5)];
        place(&mut p, e, o::mk(false, t), None);
    }
    p.wtm = e.pick(3) != 0;
    p.hmc = e.pick(21) as u32;
    p.fmn = 1 + e.pick(80) as u32;
    if e.pick(2) == 1 {
        p = p.mirror();
    }
    if p.is_valid_start().is_err() {
        return None;
    }
    Some(p)
}

/// Castling that gives check: king and rook(s) on their home squares with the right(s), the
/// enemy king on the file the castled rook lands on (d for O-O-O, f for O-O) with that file
/// open, boxed in by a few of its own men and by attackers' pawns/pieces, so that castling is
/// sometimes the only mate in one (or part of a mate in two).
pub fn castle_check_pos(e: &mut Entropy) -> Option<Pos> {
    // steer towards positions where castling mates (judged by the rules oracle): up to eight
    // candidates are drawn and the first one with a mating castling move is taken
    let mut fallback: Option<Pos> = None;
    let mut castle_mate: Option<Pos> = None;
    for _ in 0..16 {
        let Some(p) = castle_check_candidate(e) else { continue };
        let m1 = mate::mate_in_1_moves(&p);
        if m1.iter().any(|m| m.is_castle()) {
            // best: castling is the ONLY mate in one
            if m1.iter().all(|m| m.is_castle()) {
                return Some(p);
            }
            if castle_mate.is_none() {
                castle_mate = Some(p);
            }
        } else if fallback.is_none() {
            fallback = Some(p);
        }
    }
    castle_mate.or(fallback)
}

fn castle_check_candidate(e: &mut Entropy) -> Option<Pos> {
    let mut p = Pos::empty();
    p.sq[4] = o::mk(true, o::K);
    let long = e.pick(2) == 0;
    let both = e.pick(4) == 0;
    if long || both {
        p.sq[0] = o::mk(true, o::R);
        p.cr[1] = true;
    }
    if !long || both {
        p.sq[7] = o::mk(true, o::R);
        p.cr[0] = true;
    }
    let file = if long { 3 } else { 5 };
    let rank = if e.pick(2) == 0 { 2 } else { 2 + e.pick(6) as i32 }; // ranks 3..8, the 3rd rank favoured (there the castled king's own squares matter)
    let bk = o::sq(file, rank);
    p.sq[bk] = o::mk(false, o::K);
    // squares that must stay empty: between king and rook, and the file from rank 1 up to the king
    let mut keep: Vec<usize> = vec![1, 2, 3, 5, 6];
    for r in 0..rank {
        keep.push(o::sq(file, r));
    }
    let near: Vec<usize> = (0..64).filter(|&s| s != bk && (o::file_of(s) - file).abs() <= 1 && (o::rank_of(s) - rank).abs() <= 1).collect();
    // a minor piece on the far side of the back rank covers the second-rank square next to the
    // enemy king that the castled king does not reach (e2 for O-O-O, e2 again for O-O from d1/c1)
    if !both && e.pick(2) == 0 {
        let (bsq, nsq) = if long { (5usize, 6usize) } else { (3usize, 2usize) };
        if e.pick(2) == 0 {
            p.sq[bsq] = o::mk(true, o::B);
        } else {
            p.sq[nsq] = o::mk(true, o::N);
        }
    }
    // box the king in: every neighbouring square is, at random, blocked by one of its own men,
    // covered by an attacker's pawn, or left alone
    for &s in &near {
        if p.sq[s] != 0 || keep.contains(&s) {
            continue;
        }
        match e.pick(5) {
            0 | 1 => {
                let t = if (1..=6).contains(&o::rank_of(s)) { [o::P, o::P, o::N, o::B][e.pick(4)] } else { [o::N, o::B, o::R][e.pick(3)] };
                p.sq[s] = o::mk(false, t);
            }
            2 | 3 => {
                // a white pawn attacking s stands one rank below on a neighbouring file
                let (x, y) = (o::file_of(s), o::rank_of(s));
                let dx = if e.pick(2) == 0 { 1 } else { -1 };
                let (px, py) = (x + dx, y - 1);
                if (0..8).contains(&px) && (1..=6).contains(&py) {
                    let q = o::sq(px, py);
                    if p.sq[q] == 0 && !keep.contains(&q) {
                        p.sq[q] = o::mk(true, o::P);
                    }
                }
            }
            _ => {}
        }
    }
    // the defender's own men next to its king
    for _ in 0..e.pick(2) {
        let c: Vec<usize> = near.iter().copied().filter(|s| p.sq[*s] == 0 && !keep.contains(s)).collect();
        if c.is_empty() {
            break;
        }
        let s = c[e.pick(c.len())];
        let t = [o::P, o::P, o::N, o::B, o::R][e.pick(5)];
        if t == o::P && !(1..=6).contains(&o::rank_of(s)) {
            continue;
        }
        p.sq[s] = o::mk(false, t);
    }
    // attackers' men that take away flight squares
    for _ in 0..e.pick(3) {
        let t = [o::P, o::P, o::N, o::B, o::R, o::Q][e.pick(6)];
        let c: Vec<usize> = (0..64).filter(|&s| p.sq[s] == 0 && !keep.contains(&s) && (t != o::P || (1..=6).contains(&o::rank_of(s))) && (o::file_of(s) - file).abs() <= 3).collect();
        if c.is_empty() {
            break;
        }
        p.sq[c[e.pick(c.len())]] = o::mk(true, t);
    }
    for _ in 0..e.pick(3) {
        let t = [o::P, o::N, o::B, o::R][e.pick(4)];
        let c: Vec<usize> = (0..64).filter(|&s| p.sq[s] == 0 && !keep.contains(&s) && (t != o::P || (1..=6).contains(&o::rank_of(s)))).collect();
        if c.is_empty() {
            break;
        }
        p.sq[c[e.pick(c.len())]] = o::mk(false, t);
    }
    p.wtm = e.pick(6) != 0;
    p.hmc = e.pick(12) as u32;
    p.fmn = 10 + e.pick(40) as u32;
    if e.pick(2) == 1 {
        p = p.mirror();
    }
    if p.is_valid_start().is_err() || p.legal_moves().is_empty() {
        return None;
    }
    Some(p)
}

/// A double pawn push that gives check and can only be answered by capturing the pawn en
/// passant: the enemy king on its 5th rank (seen from the pusher), boxed in; the pusher's pawn on
/// its home square diagonally below, an enemy pawn beside the push square.  A searcher that
/// forgets the en-passant evasion takes the push for mate.  Candidates are steered (rules oracle)
/// towards positions where every legal reply to the push is an en-passant capture, and where a
/// real mate in one exists as well.
pub fn ep_evasion_pos(e: &mut Entropy) -> Option<Pos> {
    let mut fallback: Option<Pos> = None;
    let mut good: Option<Pos> = None;
    for _ in 0..24 {
        let Some(p) = ep_evasion_candidate(e) else { continue };
        let only_ep = p.legal_moves().into_iter().any(|m| {
            if !m.is_double() {
                return false;
            }
            let q = p.make(m);
            let r = q.legal_moves();
            q.in_check(q.wtm) && !r.is_empty() && r.iter().all(|x| x.is_ep())
        });
        if only_ep {
            if !mate::mate_in_1_moves(&p).is_empty() {
                return Some(p);
            }
            if good.is_none() {
                good = Some(p);
            }
        } else if fallback.is_none() {
            fallback = Some(p);
        }
    }
    good.or(fallback)
}

fn ep_evasion_candidate(e: &mut Entropy) -> Option<Pos> {
    let mut p = Pos::empty();
    let kf = e.pick(8) as i32;
    let s = if kf == 0 { 1 } else if kf == 7 { -1 } else if e.pick(2) == 0 { 1 } else { -1 };
    let pf = kf + s; // file of the pushing pawn
    let bk = o::sq(kf, 4);
    p.sq[bk] = o::mk(false, o::K);
    p.sq[o::sq(pf, 1)] = o::mk(true, o::P);
    // the capturing pawn beside the push square
    let cf = if e.pick(2) == 0 { pf + 1 } else { pf - 1 };
    if !(0..8).contains(&cf) {
        return None;
    }
    p.sq[o::sq(cf, 3)] = o::mk(false, o::P);
    let keep = [o::sq(pf, 2), o::sq(pf, 3)];
    let near: Vec<usize> = (0..64).filter(|&q| q != bk && (o::file_of(q) - kf).abs() <= 1 && (o::rank_of(q) - 4).abs() <= 1).collect();
    for &q in &near {
        if p.sq[q] != 0 || keep.contains(&q) {
            continue;
        }
        match e.pick(5) {
            0 | 1 => p.sq[q] = o::mk(false, [o::P, o::P, o::N, o::B][e.pick(4)]),
            2 | 3 => {
                let (x, y) = (o::file_of(q), o::rank_of(q));
                let dx = if e.pick(2) == 0 { 1 } else { -1 };
                let (px, py) = (x + dx, y - 1);
                if (0..8).contains(&px) && (1..=6).contains(&py) {
                    let w = o::sq(px, py);
                    if p.sq[w] == 0 && !keep.contains(&w) {
                        p.sq[w] = o::mk(true, o::P);
                    }
                }
            }
            _ => {}
        }
    }
    // attackers: king and one to three pieces
    let free = |p: &Pos| -> Vec<usize> { (0..64).filter(|q| p.sq[*q] == 0 && !keep.contains(q)).collect() };
    let fr: Vec<usize> = free(&p).into_iter().filter(|&q| (o::file_of(q) - kf).abs().max((o::rank_of(q) - 4).abs()) > 1).collect();
    if fr.is_empty() {
        return None;
    }
    p.sq[fr[e.pick(fr.len())]] = o::mk(true, o::K);
    for _ in 0..1 + e.pick(3) {
        let t = [o::Q, o::R, o::R, o::N, o::B][e.pick(5)];
        let fr = free(&p);
        p.sq[fr[e.pick(fr.len())]] = o::mk(true, t);
    }
    for _ in 0..e.pick(2) {
        let t = [o::N, o::B, o::R][e.pick(3)];
        let fr = free(&p);
        p.sq[fr[e.pick(fr.len())]] = o::mk(false, t);
    }
    p.wtm = true;
    p.hmc = e.pick(12) as u32;
    p.fmn = 20 + e.pick(40) as u32;
    if e.pick(2) == 1 {
        p = p.mirror();
    }
    if p.is_valid_start().is_err() || p.legal_moves().is_empty() {
        return None;
    }
    Some(p)
}

/// Minor-piece ending around a cornered king: kings plus at most one bishop or knight per
/// side.  Mates in one exist here (e.g. Kb6 + Nc7# against Ka8 with its own piece on b8) but
/// are rare; the defender's piece is put next to its king to block a flight square.
pub fn minor_ending_pos(e: &mut Entropy) -> Option<Pos> {
    let mut p = Pos::empty();
    let corner = [0usize, 7, 56, 63][e.pick(4)];
    let near: Vec<usize> = (0..64).filter(|&s| s != corner && (o::file_of(s) - o::file_of(corner)).abs() <= 1 && (o::rank_of(s) - o::rank_of(corner)).abs() <= 1).collect();
    let bk = if e.chance(1, 4) { near[e.pick(near.len())] } else { corner };
    p.sq[bk] = o::mk(false, o::K);
    // attacker king two squares away
    let wkc: Vec<usize> = (0..64).filter(|&s| { let d = (o::file_of(s) - o::file_of(bk)).abs().max((o::rank_of(s) - o::rank_of(bk)).abs()); d == 2 }).collect();
    let wk = wkc[e.pick(wkc.len())];
    p.sq[wk] = o::mk(true, o::K);
    // defender's minor next to its king (blocks a flight square), attacker's minor anywhere
    let adj: Vec<usize> = (0..64).filter(|&s| p.sq[s] == 0 && (o::file_of(s) - o::file_of(bk)).abs() <= 1 && (o::rank_of(s) - o::rank_of(bk)).abs() <= 1).collect();
    if !adj.is_empty() && !e.chance(1, 5) {
        p.sq[adj[e.pick(adj.len())]] = o::mk(false, [o::N, o::B][e.pick(2)]);
    }
    let free: Vec<usize> = (0..64).filter(|&s| p.sq[s] == 0).collect();
    p.sq[free[e.pick(free.len())]] = o::mk(true, [o::N, o::B][e.pick(2)]);
    p.wtm = e.pick(4) != 0;
    p.hmc = e.pick(21) as u32;
    p.fmn = 40 + e.pick(40) as u32;
    if e.pick(2) == 1 {
        p = p.mirror();
    }
    if p.is_valid_start().is_err() {
        return None;
    }
    Some(p)
}

#[derive(Clone, Debug)]
pub struct Case {
    pub src: u8,
    pub ent: Vec<u16>,
    pub game: gen::GameCase,
    pub history: Vec<u8>,
    pub last: u8,
}

pub fn strategy() -> impl Strategy<Value = Case> {
    (0u8..8, gen::synth_strategy(), gen::game_strategy(70), proptest::collection::vec(1u8..=5, 0..=3), 3u8..=4)
        .prop_map(|(src, ent, game, history, last)| Case { src, ent, game, history, last })
}

fn class_name(c: Class) -> &'static str {
    match c {
        Class::M1 => "M1",
        Class::M2 => "M2",
        Class::Threat => "T",
        Class::None => "none",
    }
}

pub fn history_shape(h: &[u8], last: u8) -> &'static str {
    if h.is_empty() {
        "fresh"
    } else if h.iter().all(|&d| d < last) {
        "after-shallower"
    } else if h.iter().all(|&d| d > last) {
        "after-deeper"
    } else if h.iter().any(|&d| d == last) {
        "repeated-depth"
    } else {
        "mixed"
    }
}

/// Run the searches and check the predicates.  `depths` = history followed by the last depth.
pub fn check_position(p: &Pos, depths: &[u8], rep: &mut Report) -> Result<bool, Violation> {
    let a = mate::analyse(p);
    if a.class == Class::None {
        return Ok(false);
    }
    let fen = p.to_fen();
    let Ok(board) = guard(|| Board::from_fen(&fen)) else { return Ok(false) };
    let cj = json!({"fen": fen, "depths": depths});
    srch::set_tt_off(false);
    srch::clear_tt();
    let mut last = srch::SearchResult::default();
    for &d in depths {
        last = srch::run_search(&board, Some(d), None);
        if let Some(pm) = &last.panicked {
            srch::clear_tt();
            return Err(Violation::new("search", &format!("search/panic/{}", panic_site(pm)), format!("search of {fen} to depth {d} panicked: {pm}"), cj));
        }
    }
    srch::clear_tt();
    rep.eval(1);
    let cname = class_name(a.class);
    let (h, l) = depths.split_at(depths.len() - 1);
    let shape = history_shape(h, l[0]);
    rep.class(&format!("class:{cname}"));
    rep.class(&format!("history:{shape}"));
    rep.class(&format!("last-depth:{}", l[0]));
    rep.nontrivial(o::hash_str(&format!("{cname}|{fen}|{depths:?}")));
    let Some(mv) = last.bestmove.clone().or(last.root_move.clone()) else {
        return Err(Violation::new("search", "search/no-move", format!("no move chosen at {fen} after depths {depths:?}"), cj));
    };
    let Some(m) = p.find_legal(&mv) else {
        return Err(Violation::new("search", "search/illegal-move", format!("chosen move {mv} is not legal at {fen}"), cj));
    };
    rep.sample_for(cname, || json!({"class": cname, "fen": fen, "depths": depths, "chosen": mv}));
    match a.class {
        Class::M1 => {
            if !mate::mates(p, m) {
                return Err(Violation::new(
                    "mate-in-1",
                    &format!("mate-in-1/{shape}"),
                    format!("mate in one exists at {fen} ({}), engine chose {mv} after depths {depths:?}", a.m1.iter().map(|x| x.uci()).collect::<Vec<_>>().join(",")),
                    cj,
                ));
            }
        }
        Class::M2 => {
            // "keeps a forced mate": the fastest mate is not demanded (cached mate scores are
            // relative to the ply they were stored at, so the engine may prefer a longer
            // mate); a violation is only a move after which provably no forced mate is left
            let mut budget = 400_000i64;
            match mate::keeps_forced_mate(p, m, 3, &mut budget) {
                mate::Kept::MateInTwo => rep.class("M2:kept-mate-in-2"),
                mate::Kept::LongerProven => rep.class("M2:kept-longer-forced-mate(proven<=4)"),
                mate::Kept::Unknown => rep.class("M2:inconclusive(longer mate neither proven nor refuted)"),
                mate::Kept::Lost => {
                    return Err(Violation::new(
                        "mate-in-2",
                        &format!("mate-in-2/{shape}"),
                        format!("forced mate in two exists at {fen} ({}), engine chose {mv} after depths {depths:?}, after which no forced mate is left (stalemate, a reply reaches a dead position, or the opponent now mates by force)", a.m2.iter().map(|x| x.uci()).collect::<Vec<_>>().join(",")),
                        cj,
                    ));
                }
            }
        }
        _ => {}
    }
    if a.safe_exists && mate::allows_mate_in_1(p, m) {
        return Err(Violation::new(
            "avoid-mate",
            &format!("avoid-mate/{cname}/{shape}"),
            format!("engine chose {mv} at {fen} after depths {depths:?}; it allows a mate in one although a safe move exists"),
            cj,
        ));
    }
    Ok(true)
}

pub const SHARDS: usize = 16;

pub fn run(ctx: &Ctx) -> Report {
    if ctx.shard.is_none() {
        // RCE_FUZZ_ONLY=1: only the campaign (used when measuring what the fuzzer finds alone)
        let mut rep = if std::env::var_os("RCE_FUZZ_ONLY").is_some() { Report::new() } else { run_sharded(ctx, SHARDS, SHARDS) };
        if ctx.tier == Tier::Thorough {
            super::fuzzsearch::campaign(ctx, "C12", &mut rep);
        }
        return rep;
    }
    let mut rep = Report::new();
    let corp = corpus::load(&ctx.verif);
    // corpus positions (classified ones only), fresh cache and a fixed history
    for (i, p) in corp.positions.iter().enumerate() {
        if i % ctx.shard_count() != ctx.shard_index() || p.hmc > 20 {
            continue;
        }
        for depths in [vec![3u8], vec![2, 4], vec![4, 3]] {
            match check_position(p, &depths, &mut rep) {
                Ok(_) => {}
                Err(v) => {
                    if let Some(k) = ctx.is_known(&v.sig) {
                        rep.known(&v.sig, &k.text);
                    } else {
                        rep.violation(v);
                    }
                }
            }
        }
    }
    // a checking double push whose only answer is the en-passant capture
    let epe = ctx.tier.pick(12_000, 200_000) / ctx.shard_count() as u32;
    run_prop(ctx, "c12-ep-evasion", epe, 400, (gen::synth_strategy(), proptest::collection::vec(1u8..=5, 0..=2), 3u8..=4), &mut rep, |(ent, history, last), rep| {
        let Some(p) = ep_evasion_pos(&mut Entropy::new(ent)) else {
            rep.class("source:rejected");
            return Ok(());
        };
        if p.legal_moves().len() > 40 {
            rep.class("skipped:too-wide");
            return Ok(());
        }
        rep.class("source:checking-double-push-setup");
        let only_ep = p.legal_moves().into_iter().any(|m| {
            if !m.is_double() {
                return false;
            }
            let q = p.make(m);
            let r = q.legal_moves();
            q.in_check(q.wtm) && !r.is_empty() && r.iter().all(|x| x.is_ep())
        });
        let mut depths: Vec<u8> = history.clone();
        depths.push(*last);
        let classified = check_position(&p, &depths, rep)?;
        if !classified {
            rep.class("class:none(not searched)");
        } else if only_ep {
            rep.class("classified:checking-double-push-answered-only-by-en-passant");
        }
        Ok(())
    });
    // castling that gives check (the castled rook is the checking piece)
    let castles = ctx.tier.pick(24_000, 400_000) / ctx.shard_count() as u32;
    run_prop(ctx, "c12-castle", castles, 400, (gen::synth_strategy(), proptest::collection::vec(1u8..=5, 0..=2), 3u8..=4), &mut rep, |(ent, history, last), rep| {
        let Some(p) = castle_check_pos(&mut Entropy::new(ent)) else {
            rep.class("source:rejected");
            return Ok(());
        };
        if p.legal_moves().len() > 40 {
            rep.class("skipped:too-wide");
            return Ok(());
        }
        rep.class("source:castling-gives-check-setup");
        let castle_checks = p.legal_moves().into_iter().filter(|m| m.is_castle() && p.make(*m).in_check(!p.wtm)).count();
        if castle_checks > 0 {
            rep.class("source:castling-gives-check-setup:castling-move-checks");
        }
        let mut depths: Vec<u8> = history.clone();
        depths.push(*last);
        let classified = check_position(&p, &depths, rep)?;
        if !classified {
            rep.class("class:none(not searched)");
        } else if castle_checks > 0 {
            let a = mate::analyse(&p);
            if a.m1.iter().any(|m| m.is_castle()) {
                rep.class("class:M1-by-castling");
                if a.m1.iter().all(|m| m.is_castle()) {
                    rep.class("class:M1-only-by-castling");
                }
            }
        }
        Ok(())
    });
    let cases = ctx.tier.pick(64_000, 1_600_000) / ctx.shard_count() as u32;
    run_prop(ctx, "c12", cases, 400, strategy(), &mut rep, |c, rep| {
        let p = if c.src == 4 {
            match minor_ending_pos(&mut Entropy::new(&c.ent)) {
                Some(p) => {
                    rep.class("source:minor-piece-ending");
                    p
                }
                None => {
                    rep.class("source:rejected");
                    return Ok(());
                }
            }
        } else if c.src < 5 {
            match mate_net_pos(&mut Entropy::new(&c.ent)) {
                Some(p) => {
                    rep.class("source:mate-net");
                    p
                }
                None => {
                    rep.class("source:rejected");
                    return Ok(());
                }
            }
        } else {
            // a position from weighted play (checks and captures favoured); retract
            // towards positions just before a mate
            let Some((start, _)) = gen::start_pos(&c.game.start, &corp, gen::StartMix { startpos: 1, corpus: 5, synth: 4, pattern: 6 }) else {
                return Ok(());
            };
            let mut game = Game::new(start);
            for &ch in &c.game.choices {
                let legal = game.cur.legal_moves();
                if legal.is_empty() {
                    break;
                }
                game.play(gen::choose_move(&game, &legal, true, ch));
            }
            let back = (c.src - 5) as usize + if game.cur.legal_moves().is_empty() { 1 } else { 0 };
            for _ in 0..back.min(game.moves.len()) {
                game.undo();
            }
            rep.class("source:game");
            let mut p = game.cur.clone();
            p.hmc = p.hmc.min(20);
            p
        };
        if p.legal_moves().is_empty() {
            return Ok(());
        }
        // affordable analysis only
        if p.legal_moves().len() > 40 {
            rep.class("skipped:too-wide");
            return Ok(());
        }
        let mut depths: Vec<u8> = c.history.clone();
        depths.push(c.last);
        let classified = check_position(&p, &depths, rep)?;
        if !classified {
            rep.class("class:none(not searched)");
        }
        Ok(())
    });
    rep
}

pub fn replay(_ctx: &Ctx, case: &Value) -> Report {
    let mut rep = Report::new();
    let Ok(p) = Pos::from_fen(case["fen"].as_str().unwrap_or("")) else {
        rep.infra_errors.push("bad fen".into());
        return rep;
    };
    let depths: Vec<u8> = case["depths"].as_array().map(|a| a.iter().filter_map(|x| x.as_u64().map(|d| d as u8)).collect()).unwrap_or_default();
    if depths.is_empty() {
        rep.infra_errors.push("no depths".into());
        return rep;
    }
    match check_position(&p, &depths, &mut rep) {
        Ok(_) => {}
        Err(v) => rep.violation(v),
    }
    rep
}

pub const LEVEL: &str = "exploration";
pub const RULE: &str = "positions (FEN-loaded, no history, half-move clock <= 20) that the oracle's exhaustive 3-ply analysis classifies as M1 (mate in one exists), M2 (no M1, forced mate in two exists) or T (some legal move allows a mate in one and some does not): constructed mate nets (heavy pieces vs an edge king with a pawn shield, sometimes with a pawn on the 7th rank), minor-piece endings around a cornered king, castling set-ups (king and rook at home with the right, the enemy king boxed in on the d- or f-file in front of the castled rook; steered by the rules oracle towards positions where castling is the only mate in one), checking double pawn pushes whose only answer is the en-passant capture (so the push is not the mate it looks like), positions of weighted play retracted 0-3 plies from where it ended, and the corpus; x a generated search history on the live cache (0..3 earlier searches of the same position at depths 1..5, never cleared, then depth 3 or 4). Predicates on the move of the last search: M1 => it mates; M2 => it keeps a forced mate (classified: keeps the mate in two / a longer forced mate proven within 4 moves by an AND-OR solver / inconclusive; violation only when provably no forced mate is left: stalemate or a reply reaches a dead position); always => it does not allow a mate in one when a safe move exists. Non-trivial = every classified case; distinct by (class, position, history).";
pub const ASSUMPTIONS: &[&str] = &[
    "the oracle's exhaustive mate-in-1 / forced-mate-in-2 / allows-mate-in-1 predicates (vf/mate.rs)",
    "the chosen move is read from the search's own bestmove line (captured stdout), falling back to the root cache entry",
    "only earlier searches of the same position share the cache (the statement covers nothing else)",
];
