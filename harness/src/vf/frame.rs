//! Shared framework: run context, reports, evidence, known findings, proptest driver,
//! sub-process sharding, panic capture, stdout redirection.

use proptest::strategy::{Strategy, ValueTree};
use proptest::test_runner::{Config, RngAlgorithm, TestCaseError, TestError, TestRng, TestRunner};
use serde_json::{json, Map, Value};
use std::cell::{Cell, RefCell};
use std::collections::{BTreeMap, HashSet};
use std::io::Write;
use std::path::{Path, PathBuf};
use std::sync::Mutex;
use std::time::Instant;

#[derive(Clone, Copy, PartialEq, Eq, Debug)]
pub enum Tier {
    Quick,
    Thorough,
}
impl Tier {
    pub fn name(self) -> &'static str {
        match self {
            Tier::Quick => "quick",
            Tier::Thorough => "thorough",
        }
    }
    pub fn pick<T>(self, q: T, t: T) -> T {
        match self {
            Tier::Quick => q,
            Tier::Thorough => t,
        }
    }
}

#[derive(Clone, Debug)]
pub struct Known {
    pub property: String,
    pub sig: String,
    pub text: String,
}

#[derive(Clone, Debug)]
pub struct Ctx {
    pub prop: String,
    pub tier: Tier,
    pub seed: u64,
    pub verif: PathBuf,
    pub repo: PathBuf,
    pub engine: PathBuf,
    pub self_exe: PathBuf,
    pub shard: Option<(usize, usize)>,
    pub known: Vec<Known>,
    /// replay mode: listed known findings are *not* tolerated silently (they are still
    /// reported as KNOWN-FINDING, never as VIOLATION)
    pub replay: bool,
}

impl Ctx {
    pub fn shard_index(&self) -> usize {
        self.shard.map_or(0, |s| s.0)
    }
    pub fn shard_count(&self) -> usize {
        self.shard.map_or(1, |s| s.1)
    }
    /// seed for a named sub-stream
    pub fn sub_seed(&self, name: &str) -> u64 {
        let mut h = super::oracle::hash_str(name);
        h ^= self.seed.wrapping_mul(0x9E37_79B9_7F4A_7C15);
        h ^= (self.shard_index() as u64 + 1).wrapping_mul(0xD6E8_FEB8_6659_FD93);
        super::oracle::hash_bytes(&h.to_le_bytes(), 77)
    }
    pub fn is_known(&self, sig: &str) -> Option<&Known> {
        self.known.iter().find(|k| k.property == self.prop && k.sig == sig)
    }
    pub fn scratch(&self) -> PathBuf {
        let p = self.verif.join(".build").join("scratch");
        let _ = std::fs::create_dir_all(&p);
        p
    }
}

pub fn load_known(verif: &Path) -> Vec<Known> {
    let mut v = vec![];
    if let Ok(s) = std::fs::read_to_string(verif.join("known_findings.txt")) {
        for line in s.lines() {
            let line = line.trim();
            if let Some(rest) = line.strip_prefix("known:") {
                let mut property = String::new();
                let mut sig = String::new();
                let mut text = vec![];
                for tok in rest.split_whitespace() {
                    if let Some(p) = tok.strip_prefix("property=") {
                        if property.is_empty() {
                            property = p.to_string();
                            continue;
                        }
                    }
                    if let Some(p) = tok.strip_prefix("sig=") {
                        if sig.is_empty() {
                            sig = p.to_string();
                            continue;
                        }
                    }
                    text.push(tok);
                }
                if !property.is_empty() && !sig.is_empty() {
                    v.push(Known { property, sig, text: text.join(" ") });
                }
            }
        }
    }
    v
}

#[derive(Clone, Debug)]
pub struct Violation {
    pub clause: String,
    /// signature used to match known findings: <clause>/<site>/<trigger>
    pub sig: String,
    pub detail: String,
    /// minimal input, property-specific
    pub replay: Value,
}

impl Violation {
    pub fn new(clause: &str, sig: &str, detail: impl Into<String>, replay: Value) -> Violation {
        Violation { clause: clause.to_string(), sig: sig.to_string(), detail: detail.into(), replay }
    }
}

#[derive(Default, Debug)]
pub struct Report {
    pub evaluations: u64,
    pub nontrivial: HashSet<u64>,
    pub classes: BTreeMap<String, u64>,
    pub samples: Vec<Value>,
    pub known_hits: BTreeMap<String, (u64, String)>,
    pub violations: Vec<Violation>,
    pub notes: Vec<String>,
    pub extra: BTreeMap<String, Value>,
    pub exhaustive: Option<bool>,
    /// harness-side problems (never a violation): reported as exit 2
    pub infra_errors: Vec<String>,
    frozen: bool,
}

pub const MAX_SAMPLES: usize = 8;

impl Report {
    pub fn new() -> Report {
        Report::default()
    }
    pub fn freeze(&mut self) {
        self.frozen = true;
    }
    pub fn unfreeze(&mut self) {
        self.frozen = false;
    }
    pub fn is_frozen(&self) -> bool {
        self.frozen
    }
    pub fn eval(&mut self, n: u64) {
        if !self.frozen {
            self.evaluations += n;
        }
    }
    pub fn nontrivial(&mut self, fp: u64) {
        if !self.frozen {
            self.nontrivial.insert(fp);
        }
    }
    pub fn class(&mut self, name: &str) {
        if !self.frozen {
            *self.classes.entry(name.to_string()).or_insert(0) += 1;
        }
    }
    pub fn class_n(&mut self, name: &str, n: u64) {
        if !self.frozen {
            *self.classes.entry(name.to_string()).or_insert(0) += n;
        }
    }
    pub fn sample(&mut self, v: impl FnOnce() -> Value) {
        if !self.frozen && self.samples.len() < MAX_SAMPLES {
            self.samples.push(v());
        }
    }
    /// keep a sample per class name (at most one each) so that evidence shows every class
    pub fn sample_for(&mut self, class: &str, v: impl FnOnce() -> Value) {
        if self.frozen {
            return;
        }
        let key = format!("sample:{class}");
        if !self.extra.contains_key(&key) {
            let val = v();
            if self.samples.len() < MAX_SAMPLES {
                self.samples.push(val.clone());
            }
            self.extra.insert(key, val);
        }
    }
    pub fn known(&mut self, sig: &str, what: &str) {
        if !self.frozen {
            let e = self.known_hits.entry(sig.to_string()).or_insert((0, what.to_string()));
            e.0 += 1;
        }
    }
    pub fn note(&mut self, s: impl Into<String>) {
        let s = s.into();
        if !self.notes.contains(&s) {
            self.notes.push(s);
        }
    }
    pub fn violation(&mut self, v: Violation) {
        // keep at most a handful, distinct by signature
        if self.violations.len() < 5 && !self.violations.iter().any(|x| x.sig == v.sig) {
            self.violations.push(v);
        }
    }

    pub fn merge(&mut self, o: Report) {
        self.evaluations += o.evaluations;
        self.nontrivial.extend(o.nontrivial);
        for (k, v) in o.classes {
            *self.classes.entry(k).or_insert(0) += v;
        }
        for s in o.samples {
            if self.samples.len() < MAX_SAMPLES {
                self.samples.push(s);
            }
        }
        for (k, (n, w)) in o.known_hits {
            let e = self.known_hits.entry(k).or_insert((0, w));
            e.0 += n;
        }
        for v in o.violations {
            self.violation(v);
        }
        for n in o.notes {
            self.note(n);
        }
        for (k, v) in o.extra {
            match (self.extra.get_mut(&k), &v) {
                (Some(Value::Number(a)), Value::Number(b)) if a.is_u64() && b.is_u64() => {
                    let s = a.as_u64().unwrap() + b.as_u64().unwrap();
                    self.extra.insert(k, json!(s));
                }
                (Some(_), _) => {}
                (None, _) => {
                    self.extra.insert(k, v);
                }
            }
        }
        self.exhaustive = match (self.exhaustive, o.exhaustive) {
            (Some(a), Some(b)) => Some(a && b),
            (a, None) => a,
            (None, b) => b,
        };
        self.infra_errors.extend(o.infra_errors);
    }

    /// Shard -> parent hand-off: JSON plus a binary side file with the fingerprints.
    pub fn write_files(&self, path: &Path) -> std::io::Result<()> {
        let mut bytes = Vec::with_capacity(self.nontrivial.len() * 8);
        for x in &self.nontrivial {
            bytes.extend_from_slice(&x.to_le_bytes());
        }
        std::fs::write(path.with_extension("fp"), bytes)?;
        std::fs::write(path, serde_json::to_string(&self.to_json()).unwrap())
    }
    pub fn read_files(path: &Path) -> Option<Report> {
        let v: Value = serde_json::from_str(&std::fs::read_to_string(path).ok()?).ok()?;
        let mut r = Report::from_json(&v);
        if let Ok(bytes) = std::fs::read(path.with_extension("fp")) {
            r.nontrivial.reserve(bytes.len() / 8);
            for c in bytes.chunks_exact(8) {
                r.nontrivial.insert(u64::from_le_bytes(c.try_into().unwrap()));
            }
        }
        let _ = std::fs::remove_file(path.with_extension("fp"));
        Some(r)
    }

    pub fn to_json(&self) -> Value {
        json!({
            "evaluations": self.evaluations,
            "nontrivial": Vec::<String>::new(),
            "classes": self.classes,
            "samples": self.samples,
            "known_hits": self.known_hits.iter().map(|(k,(n,w))| json!([k,n,w])).collect::<Vec<_>>(),
            "violations": self.violations.iter().map(|v| json!({"clause":v.clause,"sig":v.sig,"detail":v.detail,"replay":v.replay})).collect::<Vec<_>>(),
            "notes": self.notes,
            "extra": self.extra,
            "exhaustive": self.exhaustive,
            "infra_errors": self.infra_errors,
        })
    }
    pub fn from_json(v: &Value) -> Report {
        let mut r = Report::new();
        r.evaluations = v["evaluations"].as_u64().unwrap_or(0);
        if let Some(a) = v["nontrivial"].as_array() {
            for x in a {
                if let Some(s) = x.as_str() {
                    if let Ok(n) = u64::from_str_radix(s, 16) {
                        r.nontrivial.insert(n);
                    }
                }
            }
        }
        if let Some(m) = v["classes"].as_object() {
            for (k, x) in m {
                r.classes.insert(k.clone(), x.as_u64().unwrap_or(0));
            }
        }
        if let Some(a) = v["samples"].as_array() {
            r.samples = a.clone();
        }
        if let Some(a) = v["known_hits"].as_array() {
            for x in a {
                r.known_hits.insert(
                    x[0].as_str().unwrap_or("").to_string(),
                    (x[1].as_u64().unwrap_or(0), x[2].as_str().unwrap_or("").to_string()),
                );
            }
        }
        if let Some(a) = v["violations"].as_array() {
            for x in a {
                r.violations.push(Violation {
                    clause: x["clause"].as_str().unwrap_or("").to_string(),
                    sig: x["sig"].as_str().unwrap_or("").to_string(),
                    detail: x["detail"].as_str().unwrap_or("").to_string(),
                    replay: x["replay"].clone(),
                });
            }
        }
        if let Some(a) = v["notes"].as_array() {
            r.notes = a.iter().filter_map(|x| x.as_str().map(String::from)).collect();
        }
        if let Some(m) = v["extra"].as_object() {
            for (k, x) in m {
                r.extra.insert(k.clone(), x.clone());
            }
        }
        r.exhaustive = v["exhaustive"].as_bool();
        if let Some(a) = v["infra_errors"].as_array() {
            r.infra_errors = a.iter().filter_map(|x| x.as_str().map(String::from)).collect();
        }
        r
    }
}

/// Stream of generator choices.  All randomness of a case is a `Vec<u16>` produced by
/// proptest (or decoded from libFuzzer bytes); `pick` maps monotonically so shrinking
/// the numbers moves towards earlier alternatives.  Exhausted stream yields 0.
pub struct Entropy<'a> {
    data: &'a [u16],
    pos: usize,
}
impl<'a> Entropy<'a> {
    pub fn new(data: &'a [u16]) -> Self {
        Entropy { data, pos: 0 }
    }
    pub fn raw(&mut self) -> u16 {
        let v = self.data.get(self.pos).copied().unwrap_or(0);
        self.pos += 1;
        v
    }
    /// uniform in 0..n, monotone in the raw value
    pub fn pick(&mut self, n: usize) -> usize {
        if n <= 1 {
            self.pos += 1;
            return 0;
        }
        ((self.raw() as usize) * n) >> 16
    }
    pub fn range(&mut self, lo: i64, hi_incl: i64) -> i64 {
        lo + self.pick((hi_incl - lo + 1) as usize) as i64
    }
    pub fn chance(&mut self, num: usize, den: usize) -> bool {
        // true for *high* raw values so that shrinking turns options off
        self.pick(den) >= den - num
    }
    pub fn exhausted(&self) -> bool {
        self.pos >= self.data.len()
    }
    pub fn used(&self) -> usize {
        self.pos
    }
}

/// monotone index choice
pub fn pick16(c: u16, n: usize) -> usize {
    if n == 0 {
        0
    } else {
        ((c as usize) * n) >> 16
    }
}

/// weighted monotone choice: weights > 0
pub fn pick_weighted(c: u16, weights: &[u32]) -> usize {
    let total: u64 = weights.iter().map(|&w| w as u64).sum();
    if total == 0 {
        return 0;
    }
    let x = ((c as u64) * total) >> 16;
    let mut acc = 0u64;
    for (i, &w) in weights.iter().enumerate() {
        acc += w as u64;
        if x < acc {
            return i;
        }
    }
    weights.len() - 1
}

// ---------------------------------------------------------------------------
// panic capture

static LAST_PANIC: Mutex<Option<String>> = Mutex::new(None);

pub fn install_quiet_panic_hook() {
    std::panic::set_hook(Box::new(|info| {
        let loc = info.location().map(|l| format!("{}:{}", l.file(), l.line())).unwrap_or_default();
        let msg = if let Some(s) = info.payload().downcast_ref::<&str>() {
            (*s).to_string()
        } else if let Some(s) = info.payload().downcast_ref::<String>() {
            s.clone()
        } else {
            "<non-string panic>".to_string()
        };
        if let Ok(mut g) = LAST_PANIC.lock() {
            *g = Some(format!("{msg} @ {loc}"));
        }
    }));
}

pub fn take_last_panic() -> String {
    LAST_PANIC.lock().ok().and_then(|mut g| g.take()).unwrap_or_else(|| "<panic>".into())
}

/// Run engine code, turning a panic into Err(message @ location).
pub fn guard<T>(f: impl FnOnce() -> T) -> Result<T, String> {
    match std::panic::catch_unwind(std::panic::AssertUnwindSafe(f)) {
        Ok(v) => Ok(v),
        Err(_) => Err(take_last_panic()),
    }
}

/// file name and line stripped down to "file.rs" for signatures
pub fn panic_site(msg: &str) -> String {
    match msg.rsplit_once(" @ ") {
        Some((_, loc)) => {
            let file = loc.rsplit('/').next().unwrap_or(loc);
            file.split(':').next().unwrap_or(file).to_string()
        }
        None => "unknown".into(),
    }
}

// ---------------------------------------------------------------------------
// stdout: the engine's search prints with println!; fd 1 is pointed at /dev/null and
// the harness reports on a saved duplicate.

static SAVED_OUT: Mutex<Option<std::fs::File>> = Mutex::new(None);
static CAPTURE_RD: Mutex<Option<i32>> = Mutex::new(None);

/// fd 1 is pointed at a pipe owned by the harness (the engine's search prints `info` and
/// `bestmove` with println!); `drain_stdout` returns what was printed since the last call.
pub fn redirect_stdout() {
    use std::os::unix::io::FromRawFd;
    unsafe {
        let saved = libc::dup(1);
        let mut fds = [0i32; 2];
        if saved >= 0 && libc::pipe(fds.as_mut_ptr()) == 0 {
            libc::fcntl(fds[1], libc::F_SETPIPE_SZ, 1 << 20);
            let fl = libc::fcntl(fds[0], libc::F_GETFL);
            libc::fcntl(fds[0], libc::F_SETFL, fl | libc::O_NONBLOCK);
            libc::dup2(fds[1], 1);
            libc::close(fds[1]);
            *SAVED_OUT.lock().unwrap() = Some(std::fs::File::from_raw_fd(saved));
            *CAPTURE_RD.lock().unwrap() = Some(fds[0]);
        }
    }
}

/// While alive, fd 2 points at /dev/null (the engine reports refused commands on stderr).
pub struct StderrSilence {
    saved: i32,
}

impl StderrSilence {
    pub fn new() -> StderrSilence {
        unsafe {
            let saved = libc::dup(2);
            let null = libc::open(b"/dev/null\0".as_ptr() as *const libc::c_char, libc::O_WRONLY);
            if saved >= 0 && null >= 0 {
                libc::dup2(null, 2);
            }
            if null >= 0 {
                libc::close(null);
            }
            StderrSilence { saved }
        }
    }
}

impl Drop for StderrSilence {
    fn drop(&mut self) {
        unsafe {
            if self.saved >= 0 {
                libc::dup2(self.saved, 2);
                libc::close(self.saved);
            }
        }
    }
}

pub fn drain_stdout() -> String {
    let mut out = Vec::new();
    if let Some(fd) = *CAPTURE_RD.lock().unwrap() {
        let mut buf = [0u8; 65536];
        loop {
            let n = unsafe { libc::read(fd, buf.as_mut_ptr() as *mut libc::c_void, buf.len()) };
            if n <= 0 {
                break;
            }
            out.extend_from_slice(&buf[..n as usize]);
        }
    }
    String::from_utf8_lossy(&out).into_owned()
}

pub fn out(line: &str) {
    let mut g = SAVED_OUT.lock().unwrap();
    match g.as_mut() {
        Some(f) => {
            let _ = writeln!(f, "{line}");
            let _ = f.flush();
        }
        None => println!("{line}"),
    }
}

// ---------------------------------------------------------------------------
// proptest driver

pub struct PropOutcome<V> {
    pub cases_run: u64,
    pub failure: Option<(V, Violation)>,
}

/// Runs `check` on `cases` values of `strat` with a deterministic RNG.  `check` returns
/// Err(Violation) for a failing case; known-finding signatures are tolerated (counted in
/// the report) so that the search continues behind them.  On failure proptest shrinks
/// and the minimal case's violation is recorded.  Statistics are frozen at the first
/// failure so shrink re-executions do not inflate them.
pub fn run_prop<S>(
    ctx: &Ctx,
    stream: &str,
    cases: u32,
    max_shrink_iters: u32,
    strat: S,
    report: &mut Report,
    mut check: impl FnMut(&S::Value, &mut Report) -> Result<(), Violation>,
) where
    S: Strategy,
    S::Value: Clone + std::fmt::Debug,
{
    let seed = ctx.sub_seed(stream);
    let mut seed32 = [0u8; 32];
    for i in 0..4 {
        let w = super::oracle::hash_bytes(&seed.to_le_bytes(), i as u64 + 1);
        seed32[i * 8..i * 8 + 8].copy_from_slice(&w.to_le_bytes());
    }
    let config = Config {
        cases,
        failure_persistence: None,
        max_shrink_iters,
        max_global_rejects: 1_000_000,
        max_local_rejects: 1_000_000,
        ..Config::default()
    };
    let mut runner = TestRunner::new_with_rng(config, TestRng::from_seed(RngAlgorithm::ChaCha, &seed32));
    let rep = RefCell::new(std::mem::take(report));
    let last_violation: RefCell<Option<Violation>> = RefCell::new(None);
    let check_cell = RefCell::new(&mut check);
    let result = runner.run(&strat, |v| {
        let mut r = rep.borrow_mut();
        let res = (check_cell.borrow_mut())(&v, &mut r);
        match res {
            Ok(()) => Ok(()),
            Err(viol) => {
                if let Some(k) = ctx.is_known(&viol.sig) {
                    r.known(&viol.sig, &k.text);
                    return Ok(());
                }
                r.freeze();
                let msg = format!("{}: {}", viol.sig, viol.detail);
                *last_violation.borrow_mut() = Some(viol);
                Err(TestCaseError::fail(msg))
            }
        }
    });
    let mut rep = rep.into_inner();
    match result {
        Ok(()) => {}
        Err(TestError::Fail(reason, minimal)) => {
            // re-run on the minimal value to obtain its violation record
            rep.freeze();
            let res = guard(|| (check_cell.borrow_mut())(&minimal, &mut rep));
            rep.unfreeze();
            match res {
                Ok(Err(v)) => rep.violation(v),
                Ok(Ok(())) => match last_violation.borrow_mut().take() {
                    // a real violation was observed but the shrunk case does not show it
                    // again (timing-dependent): report the last observed one
                    Some(v) => rep.violation(v),
                    // the check closure itself panicked: a fault of the harness, never a violation
                    None => rep.infra_errors.push(format!("harness fault inside the property closure ({reason}); last panic: {}", take_last_panic())),
                },
                Err(pm) => rep.infra_errors.push(format!("harness fault inside the property closure: {pm} ({reason})")),
            }
        }
        Err(TestError::Abort(reason)) => {
            rep.infra_errors.push(format!("proptest aborted: {reason}"));
        }
    }
    rep.unfreeze();
    *report = rep;
}

// ---------------------------------------------------------------------------
// sub-process sharding

/// Spawn `n` copies of this executable with `--shard i/n`, at most `par` at a time, and
/// merge their reports.
pub fn run_sharded(ctx: &Ctx, n: usize, par: usize) -> Report {
    let mut merged = Report::new();
    for (_, r) in run_sharded_raw(ctx, n, par, &[]) {
        merged.merge(r);
    }
    merged
}

/// Like `run_sharded` but returns the individual shard reports (index, report).
pub fn run_sharded_raw(ctx: &Ctx, n: usize, par: usize, env: &[(&str, String)]) -> Vec<(usize, Report)> {
    use std::process::{Command, Stdio};
    let mut results: Vec<(usize, Report)> = vec![];
    let mut merged = Report::new();
    let scratch = ctx.scratch();
    let pid = std::process::id();
    let mut pending: Vec<usize> = (0..n).rev().collect();
    let mut running: Vec<(usize, std::process::Child, PathBuf)> = vec![];
    let mut done = 0;
    while done < n {
        while running.len() < par && !pending.is_empty() {
            let i = pending.pop().unwrap();
            let outp = scratch.join(format!("shard-{}-{}-{}.json", ctx.prop, pid, i));
            let child = Command::new(&ctx.self_exe)
                .arg(&ctx.prop)
                .arg("--tier")
                .arg(ctx.tier.name())
                .arg("--seed")
                .arg(ctx.seed.to_string())
                .arg("--verif")
                .arg(&ctx.verif)
                .arg("--repo")
                .arg(&ctx.repo)
                .arg("--engine")
                .arg(&ctx.engine)
                .arg("--shard")
                .arg(format!("{i}/{n}"))
                .arg("--out")
                .arg(&outp)
                .envs(env.iter().map(|(k, v)| (k.to_string(), v.clone())))
                .stdin(Stdio::null())
                .stdout(Stdio::null())
                .stderr(Stdio::inherit())
                .spawn();
            match child {
                Ok(c) => running.push((i, c, outp)),
                Err(e) => {
                    merged.infra_errors.push(format!("cannot spawn shard {i}: {e}"));
                    done += 1;
                }
            }
        }
        let mut k = 0;
        let mut progressed = false;
        while k < running.len() {
            match running[k].1.try_wait() {
                Ok(Some(status)) => {
                    let (i, _c, outp) = running.remove(k);
                    done += 1;
                    progressed = true;
                    match Report::read_files(&outp) {
                        Some(r) => results.push((i, r)),
                        None => merged.infra_errors.push(format!("shard {i} produced no report (status {status})")),
                    }
                    let _ = std::fs::remove_file(&outp);
                }
                Ok(None) => k += 1,
                Err(e) => {
                    let (i, _c, _o) = running.remove(k);
                    done += 1;
                    merged.infra_errors.push(format!("shard {i} wait failed: {e}"));
                }
            }
        }
        if !progressed {
            std::thread::sleep(std::time::Duration::from_millis(10));
        }
    }
    results.sort_by_key(|x| x.0);
    if !merged.infra_errors.is_empty() {
        results.push((usize::MAX, merged));
    }
    results
}

// ---------------------------------------------------------------------------
// evidence + final verdict

pub struct Verdict {
    pub exit_code: i32,
}

pub fn finish(ctx: &Ctx, level: &str, rule: &str, assumptions: &[&str], report: Report, started: Instant) -> Verdict {
    let wall = started.elapsed().as_secs_f64();
    let mut coverage = Map::new();
    coverage.insert("evaluations".into(), json!(report.evaluations));
    coverage.insert("distinct_nontrivial".into(), json!(report.nontrivial.len()));
    coverage.insert("rule".into(), json!(rule));
    coverage.insert("samples".into(), Value::Array(report.samples.clone()));
    coverage.insert("classes".into(), json!(report.classes));
    if let Some(e) = report.exhaustive {
        coverage.insert("exhaustive".into(), json!(e));
    }
    if !report.known_hits.is_empty() {
        coverage.insert(
            "excluded_known_findings".into(),
            json!(report.known_hits.iter().map(|(k, (n, w))| json!({"sig":k,"count":n,"what":w})).collect::<Vec<_>>()),
        );
    }
    if !report.notes.is_empty() {
        coverage.insert("notes".into(), json!(report.notes));
    }
    for (k, v) in &report.extra {
        coverage.insert(k.clone(), v.clone());
    }
    let mut report = report;
    let mut real_violations = vec![];
    for v in std::mem::take(&mut report.violations) {
        if let Some(k) = ctx.is_known(&v.sig) {
            let e = report.known_hits.entry(v.sig.clone()).or_insert((0, k.text.clone()));
            e.0 += 1;
        } else {
            real_violations.push(v);
        }
    }
    let ev = json!({
        "property_id": ctx.prop,
        "tier": ctx.tier.name(),
        "seed": ctx.seed,
        "level": level,
        "coverage": Value::Object(coverage),
        "assumptions": assumptions,
        "wall_s": (wall * 1000.0).round() / 1000.0,
        "violations": real_violations.len(),
    });
    // runs against a scratch copy of the repository (sensitivity experiments) must not
    // overwrite the evidence and replays of /repo itself
    let scratch_run = ctx.repo != Path::new("/repo");
    let evdir = if scratch_run { ctx.verif.join(".build").join("scratch-evidence") } else { ctx.verif.join("evidence") };
    let _ = std::fs::create_dir_all(&evdir);
    if !ctx.replay {
        let path = evdir.join(format!("{}.json", ctx.prop));
        let tmp = evdir.join(format!("{}.json.tmp", ctx.prop));
        if std::fs::write(&tmp, serde_json::to_string_pretty(&ev).unwrap() + "\n").is_ok() {
            let _ = std::fs::rename(&tmp, &path);
        }
    }
    for (sig, (n, what)) in &report.known_hits {
        out(&format!("KNOWN-FINDING: property={} sig={} count={} {}", ctx.prop, sig, n, what));
    }
    let mut code = 0;
    if !report.infra_errors.is_empty() {
        for e in &report.infra_errors {
            out(&format!("INFRA: {e}"));
        }
        code = 2;
    }
    if !real_violations.is_empty() {
        let rdir = if scratch_run { ctx.verif.join(".build").join("scratch-replays") } else { ctx.verif.join("replays") };
        let _ = std::fs::create_dir_all(&rdir);
        for v in &real_violations {
            let body = json!({
                "property": ctx.prop,
                "clause": v.clause,
                "sig": v.sig,
                "detail": v.detail,
                "case": v.replay,
                "seed": ctx.seed,
                "tier": ctx.tier.name(),
            });
            let text = serde_json::to_string_pretty(&body).unwrap() + "\n";
            let h = super::oracle::hash_str(&format!("{}{}", v.sig, v.replay));
            let path = rdir.join(format!("{}-{:08x}.json", ctx.prop, h & 0xffff_ffff));
            let _ = std::fs::write(&path, text);
            out(&format!("DETAIL property={} clause={} sig={} {}", ctx.prop, v.clause, v.sig, v.detail));
            out(&format!("VIOLATION property={} replay={}", ctx.prop, path.display()));
        }
        code = 1;
    }
    out(&format!(
        "{} {} tier={} seed={} evaluations={} distinct_nontrivial={} wall={:.1}s",
        if code == 0 { "OK" } else if code == 1 { "FAIL" } else { "INCONCLUSIVE" },
        ctx.prop,
        ctx.tier.name(),
        ctx.seed,
        report.evaluations,
        report.nontrivial.len(),
        wall
    ));
    Verdict { exit_code: code }
}
