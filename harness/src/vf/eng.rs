//! Adapter between the engine's types and the oracle's.

use super::oracle::{self as o, Mv, Pos};
use crate::board::piece::{Color, Kind};
use crate::board::ply::castling::{CastlingKind, CastlingStatus};
use crate::board::square::Square;
use crate::board::zkey::ZKey;
use crate::board::{Board, Ply};
use std::hash::{Hash, Hasher};

struct Grab(u64);
impl Hasher for Grab {
    fn finish(&self) -> u64 {
        self.0
    }
    fn write(&mut self, _bytes: &[u8]) {}
    fn write_u64(&mut self, i: u64) {
        self.0 = i;
    }
}

/// The 64-bit value of a key (ZKey's field is private; its Hash impl writes it verbatim).
pub fn key_u64(k: ZKey) -> u64 {
    let mut g = Grab(0);
    k.hash(&mut g);
    g.0
}

pub fn kind_code(k: Kind) -> u8 {
    let (c, t) = match k {
        Kind::Pawn(c) => (c, o::P),
        Kind::Knight(c) => (c, o::N),
        Kind::Bishop(c) => (c, o::B),
        Kind::Rook(c) => (c, o::R),
        Kind::Queen(c) => (c, o::Q),
        Kind::King(c) => (c, o::K),
    };
    o::mk(c == Color::White, t)
}

pub fn code_kind(code: u8) -> Kind {
    let c = if o::is_white(code) { Color::White } else { Color::Black };
    match o::pt(code) {
        o::P => Kind::Pawn(c),
        o::N => Kind::Knight(c),
        o::B => Kind::Bishop(c),
        o::R => Kind::Rook(c),
        o::Q => Kind::Queen(c),
        _ => Kind::King(c),
    }
}

pub fn esq(s: usize) -> Square {
    Square { rank: (s / 8) as u8, file: (s % 8) as u8 }
}
pub fn osq(s: Square) -> usize {
    s.rank as usize * 8 + s.file as usize
}

pub fn placement(b: &Board) -> [u8; 64] {
    let mut a = [0u8; 64];
    for s in 0..64 {
        if let Some(k) = b.get_piece(esq(s)) {
            a[s] = kind_code(k);
        }
    }
    a
}

pub fn rights(b: &Board) -> [bool; 4] {
    [
        b.castle_status(CastlingKind::WhiteKingside) == CastlingStatus::Available,
        b.castle_status(CastlingKind::WhiteQueenside) == CastlingStatus::Available,
        b.castle_status(CastlingKind::BlackKingside) == CastlingStatus::Available,
        b.castle_status(CastlingKind::BlackQueenside) == CastlingStatus::Available,
    ]
}

#[cfg(rce_verif)]
pub fn ep_file(b: &Board) -> Option<u8> {
    b.verif_en_passant_file()
}

#[cfg(rce_verif)]
pub fn remembered(b: &Board) -> Vec<u64> {
    let mut v: Vec<u64> = b.verif_remembered_keys().into_iter().map(key_u64).collect();
    v.sort_unstable();
    v
}

/// Everything the public interface (plus the e.p. accessor) shows of a board, as an
/// oracle position.
#[cfg(rce_verif)]
pub fn snapshot(b: &Board) -> Pos {
    Pos {
        sq: placement(b),
        wtm: b.current_turn == Color::White,
        cr: rights(b),
        ep: ep_file(b),
        hmc: b.get_halfmove_clock() as u32,
        fmn: b.fullmove_counter as u32,
    }
}

/// Engine move -> oracle move, flags taken from the engine's own flags.
pub fn ply_mv(p: &Ply) -> Mv {
    let mut flags = 0u8;
    if p.captured_piece.is_some() {
        flags |= o::F_CAPTURE;
    }
    if p.en_passant {
        flags |= o::F_EP;
    }
    if p.is_castles {
        flags |= o::F_CASTLE;
    }
    if p.is_double_pawn_push {
        flags |= o::F_DOUBLE;
    }
    let promo = match p.promoted_to {
        Some(Kind::Knight(_)) => o::N,
        Some(Kind::Bishop(_)) => o::B,
        Some(Kind::Rook(_)) => o::R,
        Some(Kind::Queen(_)) => o::Q,
        Some(Kind::Pawn(_)) => o::P,
        Some(Kind::King(_)) => o::K,
        None => 0,
    };
    Mv { from: osq(p.start) as u8, to: osq(p.dest) as u8, promo, flags }
}

/// Coordinate notation computed from the squares (independent of `Ply::to_notation`).
pub fn ply_uci(p: &Ply) -> String {
    ply_mv(p).uci()
}

/// Look a move up by notation among the engine's legal moves, **on a clone**, so the
/// board under test is not touched by the lookup (C02 is the only check that calls
/// `get_legal_moves` on the board under test).
pub fn find_ply(b: &Board, uci: &str) -> Option<Ply> {
    let mut c = b.clone();
    c.get_legal_moves().into_iter().find(|p| ply_uci(p) == uci)
}

pub fn legal_on_clone(b: &Board) -> Vec<Ply> {
    let mut c = b.clone();
    c.get_legal_moves()
}

/// The list a SECOND call on the same board object returns (the first call's own probing of
/// candidate moves must not have disturbed it).
pub fn legal_second_call(b: &Board) -> Vec<Ply> {
    let mut c = b.clone();
    let _ = c.get_legal_moves();
    c.get_legal_moves()
}

pub fn color(white: bool) -> Color {
    if white {
        Color::White
    } else {
        Color::Black
    }
}
