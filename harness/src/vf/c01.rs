//! C01 - legal move generation and check status are exactly the rules of chess.
//!
//! Differential against the independent rules oracle at every position of: bounded
//! exhaustive walks (start position, every corpus FEN), proptest-generated games from
//! every kind of start (weighted towards special moves), and pattern positions.

use super::frame::*;
use super::oracle::{self as o, Game, Mv, Pos};
use super::{corpus, eng, gen};
use crate::board::{Board, Ply};
use serde_json::{json, Value};
use std::collections::HashSet;

pub fn case_json(start_fen: &str, moves: &[String]) -> Value {
    json!({"start_fen": start_fen, "moves": moves})
}

/// Compare the engine with the oracle at one position.  Returns the pairing
/// (oracle move, engine ply) of the legal moves for descent.
pub fn check_node(p: &Pos, board: &Board, start_fen: &str, path: &[String]) -> Result<Vec<(Mv, Ply)>, Violation> {
    let here = || case_json(start_fen, path);
    let want = p.legal_moves();
    let got = match guard(|| eng::legal_on_clone(board)) {
        Ok(v) => v,
        Err(pm) => {
            return Err(Violation::new(
                "moves",
                &format!("moves/panic/{}", panic_site(&pm)),
                format!("get_legal_moves panicked at {} [{}]: {pm}", p.to_fen(), path.join(" ")),
                here(),
            ))
        }
    };
    let mut got_uci: Vec<String> = got.iter().map(eng::ply_uci).collect();
    let mut want_uci: Vec<String> = want.iter().map(|m| m.uci()).collect();
    got_uci.sort();
    want_uci.sort();
    if got_uci != want_uci {
        let gs: HashSet<&String> = got_uci.iter().collect();
        let ws: HashSet<&String> = want_uci.iter().collect();
        let missing: Vec<&&String> = ws.difference(&gs).collect();
        let spurious: Vec<&&String> = gs.difference(&ws).collect();
        let dup = got_uci.len() != gs.len();
        let kind = if !missing.is_empty() {
            "missing"
        } else if !spurious.is_empty() {
            "spurious"
        } else if dup {
            "duplicate"
        } else {
            "differs"
        };
        return Err(Violation::new(
            "moves",
            &format!("moves/set/{kind}"),
            format!("legal moves differ at {} [{}]: missing {:?}, spurious {:?}, duplicates {}", p.to_fen(), path.join(" "), missing, spurious, dup),
            here(),
        ));
    }
    // asking again on the same board object gives the same answer (every fourth node)
    if p.pos_id().fp64() % 4 == 0 {
        if let Ok(again) = guard(|| eng::legal_second_call(board)) {
            let mut again_uci: Vec<String> = again.iter().map(eng::ply_uci).collect();
            again_uci.sort();
            if again_uci != want_uci {
                return Err(Violation::new(
                    "moves",
                    "moves/set/second-call-differs",
                    format!("the second get_legal_moves() on the same board differs from the rules at {} [{}]: got {:?}, rules {:?}", p.to_fen(), path.join(" "), again_uci, want_uci),
                    here(),
                ));
            }
        }
    }
    // check status for both colours
    for white in [true, false] {
        let w = p.in_check(white);
        let g = guard(|| board.is_in_check(eng::color(white)));
        match g {
            Ok(g) if g == w => {}
            Ok(g) => {
                return Err(Violation::new(
                    "check-status",
                    "check-status/wrong",
                    format!("is_in_check({}) = {g}, rules say {w} at {} [{}]", if white { "white" } else { "black" }, p.to_fen(), path.join(" ")),
                    here(),
                ))
            }
            Err(pm) => {
                return Err(Violation::new(
                    "check-status",
                    &format!("check-status/panic/{}", panic_site(&pm)),
                    format!("is_in_check panicked at {}: {pm}", p.to_fen()),
                    here(),
                ))
            }
        }
    }
    // pair the moves; every offered move must really be the move of that name
    let mut pairs = Vec::with_capacity(want.len());
    for m in &want {
        let u = m.uci();
        let ply = got.iter().find(|g| eng::ply_uci(g) == u).copied().expect("sets are equal");
        let child = p.make(*m);
        let made = guard(|| {
            let mut c = board.clone();
            c.make_move(ply);
            (eng::placement(&c), c.current_turn == eng::color(true))
        });
        match made {
            Ok((pl, wtm)) => {
                if pl != child.sq || wtm != child.wtm {
                    let mut path2 = path.to_vec();
                    path2.push(u.clone());
                    return Err(Violation::new(
                        "move-effect",
                        &format!("move-effect/{}", move_kind(m)),
                        format!("after {u} at {} the engine's placement differs from the rules' ({})", p.to_fen(), child.placement_fen()),
                        case_json(start_fen, &path2),
                    ));
                }
            }
            Err(pm) => {
                let mut path2 = path.to_vec();
                path2.push(u.clone());
                return Err(Violation::new(
                    "move-effect",
                    &format!("move-effect/panic/{}", panic_site(&pm)),
                    format!("make_move({u}) panicked at {}: {pm}", p.to_fen()),
                    case_json(start_fen, &path2),
                ));
            }
        }
        pairs.push((*m, ply));
    }
    // the engine's own flags (reported as a separate clause)
    for (m, ply) in &pairs {
        let gm = eng::ply_mv(ply);
        if gm.flags != m.flags {
            return Err(Violation::new(
                "move-flags",
                &format!("move-flags/{}", move_kind(m)),
                format!("move {} at {}: engine flags {:#x}, rules {:#x} (1=capture 2=e.p. 4=castle 8=double push)", m.uci(), p.to_fen(), gm.flags, m.flags),
                here(),
            ));
        }
    }
    Ok(pairs)
}

pub fn move_kind(m: &Mv) -> &'static str {
    if m.is_castle() {
        "castle"
    } else if m.is_ep() {
        "ep"
    } else if m.is_promo() && m.is_capture() {
        "promo-capture"
    } else if m.is_promo() {
        "promo"
    } else if m.is_double() {
        "double-push"
    } else if m.is_capture() {
        "capture"
    } else {
        "quiet"
    }
}

pub fn record_classes(p: &Pos, legal: &[Mv], rep: &mut Report, start_fen: &str, path: &[String]) {
    rep.eval(1);
    let cl = gen::classify(p, legal);
    if gen::is_nontrivial_c01(&cl) {
        rep.nontrivial(p.pos_id().fp64());
    }
    for c in &cl {
        rep.class(c);
        rep.sample_for(c, || json!({"class": c, "fen": p.to_fen(), "start_fen": start_fen, "moves": path}));
    }
}

/// Bounded exhaustive walk in lock step.
pub fn walk(p: &Pos, board: &Board, depth: u32, start_fen: &str, path: &mut Vec<String>, rep: &mut Report, ctx: &Ctx) -> Result<(), Violation> {
    let pairs = match check_node(p, board, start_fen, path) {
        Ok(x) => x,
        Err(v) => {
            if let Some(k) = ctx.is_known(&v.sig) {
                rep.known(&v.sig, &k.text);
                return Ok(());
            }
            return Err(v);
        }
    };
    let legal: Vec<Mv> = pairs.iter().map(|x| x.0).collect();
    record_classes(p, &legal, rep, start_fen, path);
    if depth == 0 {
        return Ok(());
    }
    for (m, ply) in pairs {
        let child = p.make(m);
        let mut cb = board.clone();
        cb.make_move(ply); // already exercised under guard in check_node
        path.push(m.uci());
        let r = walk(&child, &cb, depth - 1, start_fen, path, rep, ctx);
        path.pop();
        r?;
    }
    Ok(())
}

pub struct WalkTask {
    pub fen: String,
    pub root_move: Option<usize>,
    pub depth: u32,
}

pub fn walk_tasks(ctx: &Ctx, corp: &corpus::Corpus) -> Vec<WalkTask> {
    let mut tasks = vec![];
    let start = Pos::startpos();
    let d0 = ctx.tier.pick(4, 5);
    for i in 0..start.legal_moves().len() {
        tasks.push(WalkTask { fen: start.to_fen(), root_move: Some(i), depth: d0 });
    }
    // corpus positions: the deepest walk whose estimated size fits the per-position budget
    // (estimate from the oracle's perft(2): nodes(d) ~ perft2^(d/2))
    let budget = ctx.tier.pick(8_000.0f64, 100_000.0);
    for (i, p) in corp.positions.iter().enumerate() {
        let n2 = super::oracle::perft(p, 2).max(2) as f64;
        let mut d = 1u32;
        while d < 6 && n2.powf((d + 1) as f64 / 2.0) <= budget {
            d += 1;
        }
        tasks.push(WalkTask { fen: corp.fens[i].clone(), root_move: None, depth: d });
    }
    tasks
}

pub fn run_walk_task(t: &WalkTask, rep: &mut Report, ctx: &Ctx) {
    let p = Pos::from_fen(&t.fen).unwrap();
    let board = match guard(|| Board::from_fen(&t.fen)) {
        Ok(b) => b,
        Err(_) => return, // C07's subject
    };
    let mut path = vec![];
    let res = match t.root_move {
        None => walk(&p, &board, t.depth, &t.fen, &mut path, rep, ctx),
        Some(i) => {
            // root node itself is checked by the shard that owns root move 0
            let pairs = match check_node(&p, &board, &t.fen, &path) {
                Ok(x) => x,
                Err(v) => {
                    if i == 0 {
                        rep.violation(v);
                    }
                    return;
                }
            };
            if i == 0 {
                let legal: Vec<Mv> = pairs.iter().map(|x| x.0).collect();
                record_classes(&p, &legal, rep, &t.fen, &path);
            }
            let (m, ply) = pairs[i];
            let child = p.make(m);
            let mut cb = board.clone();
            cb.make_move(ply);
            path.push(m.uci());
            walk(&child, &cb, t.depth - 1, &t.fen, &mut path, rep, ctx)
        }
    };
    if let Err(v) = res {
        rep.violation(v);
    }
}

/// One generated game, checked at every position.
pub fn game_case(case: &gen::GameCase, corp: &corpus::Corpus, rep: &mut Report) -> Result<(), Violation> {
    let Some((start, label)) = gen::start_pos(&case.start, corp, gen::MIX_DEFAULT) else {
        rep.class("start:rejected");
        return Ok(());
    };
    rep.class(&format!("start:{}", label.split(':').next().unwrap_or("")));
    let start_fen = start.to_fen();
    let mut board = match guard(|| Board::from_fen(&start_fen)) {
        Ok(b) => b,
        Err(_) => return Ok(()),
    };
    let mut game = Game::new(start);
    let mut path: Vec<String> = vec![];
    rep.class(if case.weighted { "game:weighted" } else { "game:uniform" });
    for (i, &c) in case.choices.iter().enumerate() {
        let pairs = check_node(&game.cur, &board, &start_fen, &path)?;
        let legal: Vec<Mv> = pairs.iter().map(|x| x.0).collect();
        record_classes(&game.cur, &legal, rep, &start_fen, &path);
        if legal.is_empty() {
            break;
        }
        let m = gen::choose_move(&game, &legal, case.weighted, c);
        let ply = pairs.iter().find(|x| x.0 == m).unwrap().1;
        rep.class(&format!("played:{}", move_kind(&m)));
        game.play(m);
        board.make_move(ply);
        path.push(m.uci());
        if i + 1 == case.choices.len() {
            let pairs = check_node(&game.cur, &board, &start_fen, &path)?;
            let legal: Vec<Mv> = pairs.iter().map(|x| x.0).collect();
            record_classes(&game.cur, &legal, rep, &start_fen, &path);
        }
    }
    if case.choices.is_empty() {
        let pairs = check_node(&game.cur, &board, &start_fen, &path)?;
        let legal: Vec<Mv> = pairs.iter().map(|x| x.0).collect();
        record_classes(&game.cur, &legal, rep, &start_fen, &path);
    }
    rep.sample(|| json!({"start": label, "start_fen": start_fen, "moves": path.join(" ")}));
    Ok(())
}

pub const SHARDS: usize = 16;

pub fn run(ctx: &Ctx) -> Report {
    if ctx.shard.is_none() {
        let mut rep = run_sharded(ctx, SHARDS, SHARDS);
        if ctx.tier == Tier::Thorough {
            super::fuzzplay::campaign(ctx, "C01", &mut rep);
        }
        return rep;
    }
    let mut rep = Report::new();
    let corp = corpus::load(&ctx.verif);
    if ctx.shard_index() == 0 {
        for (f, e) in &corp.rejected {
            rep.note(format!("corpus entry rejected by the oracle: {f}: {e}"));
        }
    }
    // (a) bounded exhaustive walks
    let tasks = walk_tasks(ctx, &corp);
    for (i, t) in tasks.iter().enumerate() {
        if i % ctx.shard_count() == ctx.shard_index() {
            run_walk_task(t, &mut rep, ctx);
            rep.class("walk:tasks");
        }
    }
    // (b) generated games
    let games = ctx.tier.pick(4000, 60_000) / ctx.shard_count() as u32;
    let max_len = ctx.tier.pick(120, 200);
    run_prop(ctx, "c01-games", games, 4000, gen::game_strategy(max_len), &mut rep, |case, rep| game_case(case, &corp, rep));
    rep
}

pub fn replay_position(start_fen: &str, moves: &[String]) -> Result<(Pos, Board), String> {
    let mut p = Pos::from_fen(start_fen)?;
    let mut board = guard(|| Board::from_fen(start_fen))?;
    for u in moves {
        let m = p.find_legal(u).ok_or_else(|| format!("replay move {u} is not legal per the oracle"))?;
        match eng::find_ply(&board, u) {
            Some(ply) => board.make_move(ply),
            None => return Err(format!("engine does not offer {u}")),
        }
        p = p.make(m);
    }
    Ok((p, board))
}

pub fn replay(_ctx: &Ctx, case: &Value) -> Report {
    let mut rep = Report::new();
    let start_fen = case["start_fen"].as_str().unwrap_or("").to_string();
    let moves: Vec<String> = case["moves"].as_array().map(|a| a.iter().filter_map(|x| x.as_str().map(String::from)).collect()).unwrap_or_default();
    // walk along the recorded line, checking every position on the way (the failing
    // node may be the parent of the last recorded move)
    let Ok(mut p) = Pos::from_fen(&start_fen) else {
        rep.infra_errors.push("bad start fen in replay".into());
        return rep;
    };
    let Ok(mut board) = guard(|| Board::from_fen(&start_fen)) else {
        rep.infra_errors.push("engine cannot load start fen".into());
        return rep;
    };
    let mut path = vec![];
    for u in moves.iter().map(Some).chain(std::iter::once(None)) {
        rep.eval(1);
        match check_node(&p, &board, &start_fen, &path) {
            Err(v) => {
                rep.violation(v);
                return rep;
            }
            Ok(pairs) => {
                if let Some(u) = u {
                    if let Some((m, ply)) = pairs.iter().find(|x| &x.0.uci() == u) {
                        p = p.make(*m);
                        board.make_move(*ply);
                        path.push(u.clone());
                    } else {
                        rep.infra_errors.push(format!("replay move {u} not legal"));
                        return rep;
                    }
                }
            }
        }
    }
    rep
}

pub const LEVEL: &str = "exploration";
pub const RULE: &str = "positions = every node of bounded exhaustive lock-step walks (start position to depth 4 quick / 5 thorough, every corpus FEN to the deepest depth (1..6) whose estimated walk fits 8 000 / 100 000 nodes) plus every position of proptest-generated games (uniform and special-move-weighted) from startpos / corpus / synthesised / pattern starts. At each: engine legal-move multiset == oracle set (both directions, no duplicates), at every fourth position the list returned by a SECOND call on the same board object equals the oracle set too, every offered move produces the oracle's successor placement, engine flags == oracle flags, is_in_check for both colours. Non-trivial = position whose legal set differs from its pseudo-legal set (pin / check evasion) or that offers castling, e.p. or promotion, or where castling/e.p. is pseudo-available but illegal, or mate/stalemate; distinct by position identity (placement, side, rights, e.p. file).";
pub const ASSUMPTIONS: &[&str] = &[
    "the independent rules oracle (vf/oracle.rs), validated against published perft values at the start of every run",
    "FEN loading of the start positions (C07's subject) is used to set positions up",
];
