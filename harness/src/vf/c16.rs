//! C16 - fixed-depth search from a fresh cache is deterministic.
//!
//! Equality of (best move, score, nodes) of the same searches repeated inside one
//! process (with searches of other positions in between), in four separate processes, and
//! while busy-loop processes load the machine; equality of the node total printed by the
//! real `bench` subcommand run twice (quick) / four times (thorough) concurrently, one of
//! the runs frozen for 6 s in the middle (SIGSTOP/SIGCONT = extreme load, deterministically).

use super::frame::*;
use super::oracle::{self as o, Pos};
use super::{corpus, srch};
use crate::board::Board;
use serde_json::{json, Value};
use std::process::{Command, Stdio};
use std::time::{Duration, Instant};

fn work_list(ctx: &Ctx, corp: &corpus::Corpus) -> Vec<(String, u8)> {
    let mut v = vec![];
    let bench = corp.with_tag_prefix("bench");
    for (k, &i) in bench.iter().enumerate() {
        let d = ctx.tier.pick(if k % 3 == 0 { 5 } else { 4 }, if k % 2 == 0 { 6 } else { 5 });
        v.push((corp.fens[i].clone(), d));
    }
    let others: Vec<usize> = (0..corp.len()).filter(|i| !corp.tags[*i].starts_with("bench") && !corp.positions[*i].legal_moves().is_empty()).collect();
    let take = ctx.tier.pick(60, 200);
    for (k, &i) in others.iter().enumerate().take(take) {
        v.push((corp.fens[i].clone(), if k % 2 == 0 { 3 } else { 4 }));
    }
    // draws inside the tree (stalemate, fifty-move rule, repetition of the game's positions), both sides to move
    for (k, f) in [
        "8/8/8/8/8/4k3/4p3/4K3 w - - 0 1",
        "4k3/4P3/4K3/8/8/8/8/8 b - - 0 1",
        "7k/8/5QK1/8/8/8/8/8 w - - 0 1",
        "8/8/8/8/8/5qk1/8/7K b - - 0 1",
        "7k/8/8/8/8/8/R7/K7 b - - 96 80",
        "7k/8/8/8/8/8/R7/K7 w - - 97 80",
        "k7/r7/8/8/8/8/8/7K w - - 96 80",
        "rnbqkbnr/pppppppp/8/8/8/8/PPPPPPPP/RNBQKBNR w KQkq - 0 1|g1f3 g8f6 f3g1 f6g8",
        "rnbqkbnr/pppppppp/8/8/8/8/PPPPPPPP/RNBQKBNR w KQkq - 0 1|g1f3 g8f6 f3g1 f6g8 g1f3",
        "r1bqkbnr/pppp1ppp/2n5/4p3/4P3/5N2/PPPP1PPP/RNBQKB1R w KQkq - 2 3|f3g1 c6b8 g1f3 b8c6",
        "8/8/4k3/8/8/3QK3/8/8 w - - 0 1|d3d4 e6e7 d4d3 e7e6",
        "8/8/4k3/8/8/3QK3/8/8 w - - 0 1|d3d4 e6e7 d4d3",
    ]
    .iter()
    .enumerate()
    {
        v.push((f.to_string(), if k % 2 == 0 { 5 } else { 4 }));
    }
    // positions WITH game history ("FEN|moves"): 10-16 plies of repetition- and capture-weighted
    // play, so the remembered earlier positions matter inside the search
    let n_hist = ctx.tier.pick(30, 120);
    for k in 0..n_hist {
        let i = others[(k * 5 + 1) % others.len()];
        let mut game = super::oracle::Game::new(corp.positions[i].clone());
        let mut h = o::hash_str(&format!("c16-history-{k}-{}", ctx.seed));
        for _ in 0..(10 + k % 7) {
            let legal = game.cur.legal_moves();
            if legal.is_empty() {
                break;
            }
            h = o::hash_bytes(&h.to_le_bytes(), 16);
            game.play(super::gen::choose_move(&game, &legal, true, (h >> 20) as u16));
        }
        while game.cur.legal_moves().is_empty() && !game.moves.is_empty() {
            game.undo();
        }
        if !game.moves.is_empty() {
            v.push((format!("{}|{}", corp.fens[i], game.moves_uci().join(" ")), 3 + (k % 2) as u8));
        }
    }
    v
}

/// "FEN" or "FEN|m1 m2 ..." -> (fen, moves)
fn split_key(key: &str) -> (&str, Vec<String>) {
    match key.split_once('|') {
        Some((f, m)) => (f, m.split_whitespace().map(String::from).collect()),
        None => (key, vec![]),
    }
}

fn one(key: &str, d: u8) -> Option<(String, i16, u64)> {
    let (fen, moves) = split_key(key);
    let board = super::c11::build_board(fen, &moves)?;
    srch::set_tt_off(false);
    srch::clear_tt();
    let r = srch::run_search(&board, Some(d), None);
    srch::clear_tt();
    if r.panicked.is_some() {
        return None;
    }
    Some((r.bestmove.or(r.root_move)?, r.root_score?, r.nodes))
}

fn gcd(a: usize, b: usize) -> usize {
    if b == 0 {
        a
    } else {
        gcd(b, a % b)
    }
}

fn worker(ctx: &Ctx) -> Report {
    let mut rep = Report::new();
    let corp = corpus::load(&ctx.verif);
    let list = work_list(ctx, &corp);
    let mut results: Vec<Value> = vec![];
    let reps = 3;
    let mut table: Vec<Option<(String, i16, u64)>> = vec![None; list.len()];
    // A process-global latch set by the FIRST search of a process must not show either: every
    // worker process begins with a different primer search (other side to move, a drawn ending,
    // a game with repetitions) whose result is not compared
    {
        let primers = [
            "8/8/8/8/8/4k3/4p3/4K3 w - - 0 1",
            "4k3/4P3/4K3/8/8/8/8/8 b - - 0 1",
            "r1bqkbnr/pppp1ppp/2n5/4p3/4P3/5N2/PPPP1PPP/RNBQKB1R w KQkq - 2 3|f3g1 c6b8 g1f3 b8c6",
            "7k/8/8/8/8/8/R7/K7 b - - 96 80",
        ];
        let _ = one(primers[ctx.shard_index() % 4], 4);
        rep.class("primer-search-before-everything(per-process, not compared)");
    }
    let n = list.len();
    // a stride coprime to the list length
    let stride = (3..).find(|k| gcd(*k, n) == 1).unwrap_or(1);
    for round in 0..reps {
        // different visiting order per round and per process => different searches precede each one
        let off = (ctx.shard_index() * n) / 4 + ctx.shard_index();
        let order: Vec<usize> = match round {
            0 => (0..n).map(|i| (i + off) % n).collect(),
            1 => (0..n).rev().map(|i| (i + off) % n).collect(),
            _ => (0..n).map(|i| (i * stride + off) % n).collect(),
        };
        for i in order {
            let (fen, d) = &list[i];
            // a search of another position whose cache content is then discarded
            if round > 0 && i % 5 == 0 {
                let _ = one(&list[(i + 1) % list.len()].0, 2);
            }
            let Some(r) = one(fen, *d) else { continue };
            rep.eval(1);
            if r.2 >= 1000 {
                rep.nontrivial(o::hash_str(&format!("{fen}|{d}")));
            }
            match &table[i] {
                None => table[i] = Some(r),
                Some(prev) => {
                    if *prev != r {
                        rep.violation(Violation::new(
                            "same-process",
                            "same-process/differs",
                            format!("searching {fen} to depth {d} twice in one process from an empty cache gave {prev:?} and then {r:?}"),
                            json!({"fen": fen, "depth": d}),
                        ));
                    }
                }
            }
        }
    }
    for (i, t) in table.iter().enumerate() {
        if let Some((m, s, n)) = t {
            results.push(json!([list[i].0, list[i].1, m, s, n]));
        }
    }
    rep.extra.insert("results".into(), Value::Array(results));
    rep
}

fn burner() -> Report {
    let secs: u64 = std::env::var("RCE_C16_BURN").ok().and_then(|s| s.parse().ok()).unwrap_or(5);
    let t = Instant::now();
    let mut x = 1u64;
    while t.elapsed() < Duration::from_secs(secs) {
        for _ in 0..1_000_000 {
            x = x.wrapping_mul(6364136223846793005).wrapping_add(1442695040888963407);
        }
    }
    let mut r = Report::new();
    r.extra.insert("burn".into(), json!(x & 1));
    r
}

fn run_bench(ctx: &Ctx) -> std::io::Result<std::process::Child> {
    Command::new(&ctx.engine).arg("bench").stdin(Stdio::null()).stdout(Stdio::piped()).stderr(Stdio::null()).spawn()
}

fn bench_nodes(out: &str) -> Option<u64> {
    out.lines().find_map(|l| l.trim().strip_suffix(" nodes").and_then(|n| n.trim().parse().ok()))
}

/// Cold-start storm: many engine processes started at once on an oversubscribed machine, each
/// given its whole input at once (position + go depth 4 on the first line the process ever
/// reads), so that whatever the process still does in the background right after start-up
/// overlaps with its first search.  Returns (bestmove line, node count) per process.
fn cold_start_storm(ctx: &Ctx, total: usize, par: usize) -> Vec<(String, String)> {
    use super::uciproc::{Engine, Stream};
    let results = std::sync::Mutex::new(Vec::new());
    let next = std::sync::atomic::AtomicUsize::new(0);
    std::thread::scope(|s| {
        for _ in 0..par {
            s.spawn(|| loop {
                let k = next.fetch_add(1, std::sync::atomic::Ordering::SeqCst);
                if k >= total {
                    break;
                }
                let Ok(mut e) = Engine::spawn(&ctx.engine, &[]) else { continue };
                if k % 2 == 0 {
                    e.send_raw(b"position startpos moves e2e4 e7e5\ngo depth 4\n");
                } else {
                    e.send_raw(b"uci\nisready\nucinewgame\nposition startpos moves e2e4 e7e5\ngo depth 4\n");
                }
                let best = e.wait_for(Duration::from_secs(120), |ev| (ev.stream == Stream::Out && ev.line.starts_with("bestmove")) || ev.eof);
                let nodes = e.stdout_lines().iter().rev().find(|l| l.line.starts_with("info")).and_then(|l| {
                    let toks: Vec<&str> = l.line.split_whitespace().collect();
                    toks.iter().position(|t| *t == "nodes").and_then(|i| toks.get(i + 1)).map(|s| s.to_string())
                });
                e.send("quit");
                let _ = e.wait_exit(Duration::from_secs(2));
                results.lock().unwrap().push((best.map(|b| b.line).unwrap_or_default(), nodes.unwrap_or_default()));
            });
        }
    });
    results.into_inner().unwrap()
}

pub fn run(ctx: &Ctx) -> Report {
    if ctx.shard.is_some() {
        return match std::env::var("RCE_C16_ROLE").ok().as_deref() {
            Some("burn") => burner(),
            _ => worker(ctx),
        };
    }
    let mut rep = Report::new();
    // phase 1: four worker processes + the real bench (x2 / x4) + busy loops, all at once
    let n_bench = ctx.tier.pick(2, 4);
    let mut benches = vec![];
    for _ in 0..n_bench {
        match run_bench(ctx) {
            Ok(c) => benches.push(c),
            Err(e) => rep.infra_errors.push(format!("cannot start bench: {e}")),
        }
    }
    // One bench run is frozen for 6 s (SIGSTOP/SIGCONT): for the frozen process wall-clock time
    // passes while it does no work, exactly what extreme machine load does, but without
    // depending on how busy this sandbox happens to be.
    let frozen_pid = benches.first().map(|c| c.id() as i32);
    let freezer = std::thread::spawn(move || {
        if let Some(pid) = frozen_pid {
            std::thread::sleep(Duration::from_millis(1500));
            unsafe {
                libc::kill(pid, libc::SIGSTOP);
            }
            std::thread::sleep(Duration::from_secs(6));
            unsafe {
                libc::kill(pid, libc::SIGCONT);
            }
        }
    });
    let burn_secs = ctx.tier.pick(20u64, 60);
    let burners = std::thread::scope(|s| {
        let h = s.spawn(|| run_sharded_raw(ctx, 10, 10, &[("RCE_C16_ROLE", "burn".to_string()), ("RCE_C16_BURN", burn_secs.to_string())]));
        let storm = s.spawn(|| cold_start_storm(ctx, ctx.tier.pick(4000, 40_000), 128));
        let workers = run_sharded_raw(ctx, 4, 4, &[("RCE_C16_ROLE", "work".to_string())]);
        let _ = h.join();
        (workers, storm.join().unwrap_or_default())
    });
    let (workers, storm) = burners;
    // a process that gave no answer within its 120 s is a timeout (C09's subject / machine load), not a different answer
    let unanswered = storm.iter().filter(|r| r.0.is_empty() || r.1.is_empty()).count();
    if unanswered > 0 {
        rep.class_n("cold-start-storm:unanswered(not compared)", unanswered as u64);
    }
    let storm: Vec<(String, String)> = storm.into_iter().filter(|r| !r.0.is_empty() && !r.1.is_empty()).collect();
    rep.eval(storm.len() as u64);
    if storm.len() >= 2 {
        rep.nontrivial(o::hash_str("cold-start-storm"));
        rep.class_n("cold-start-storm:fresh-processes(128 at a time, under the busy loops)", storm.len() as u64);
        let mut kinds: std::collections::BTreeMap<(String, String), usize> = Default::default();
        for r in &storm {
            *kinds.entry(r.clone()).or_insert(0) += 1;
        }
        if kinds.len() > 1 {
            rep.violation(Violation::new(
                "across-processes",
                "across-processes/cold-start-differs",
                format!("'position startpos moves e2e4 e7e5' + 'go depth 4' as the first input of {} freshly started engine processes gave different answers: {:?}", storm.len(), kinds),
                json!({"cold_start": true}),
            ));
        }
        rep.samples.push(json!({"cold_start_storm": storm.len(), "answer": storm[0]}));
    }
    // compare the workers' result tables
    let mut base: Option<Value> = None;
    for (i, w) in &workers {
        if *i == usize::MAX {
            rep.infra_errors.extend(w.infra_errors.clone());
            continue;
        }
        let Some(res) = w.extra.get("results") else { continue };
        match &base {
            None => base = Some(res.clone()),
            Some(b) => {
                let (ba, ra) = (b.as_array().cloned().unwrap_or_default(), res.as_array().cloned().unwrap_or_default());
                for (x, y) in ba.iter().zip(ra.iter()) {
                    if x != y {
                        rep.violation(Violation::new(
                            "across-processes",
                            "across-processes/differs",
                            format!("the same search gave {x} in one process and {y} in another (under load)"),
                            json!({"fen": x[0], "depth": x[1]}),
                        ));
                        break;
                    }
                }
                if ba.len() != ra.len() {
                    rep.infra_errors.push("workers returned result tables of different length".into());
                }
            }
        }
    }
    let mut merged = Report::new();
    for (i, w) in workers {
        if i != usize::MAX {
            let mut w = w;
            w.extra.remove("results");
            merged.merge(w);
        }
    }
    if let Some(b) = base.as_ref().and_then(|b| b.as_array()) {
        for x in b.iter().take(6) {
            rep.samples.push(json!({"fen": x[0], "depth": x[1], "bestmove": x[2], "score": x[3], "nodes": x[4], "identical_in": "3 runs x 4 processes under load"}));
        }
        rep.class_n("searches-compared-across-4-processes", b.len() as u64);
    }
    rep.merge(merged);
    // the same searches through the real binary in three separate engine processes
    // (fresh process = fresh cache): bestmove and the last info line's nodes must agree
    {
        use super::uciproc::{Engine, Stream};
        let corp = corpus::load(&ctx.verif);
        let all = work_list(ctx, &corp);
        let mut list: Vec<(String, u8)> = all.iter().filter(|x| x.1 <= 4 && !x.0.contains('|')).take(ctx.tier.pick(10, 50)).cloned().collect();
        list.extend(all.iter().filter(|x| x.0.contains('|')).take(ctx.tier.pick(10, 50)).cloned());
        let mut tables: Vec<Vec<(String, String)>> = vec![];
        for proc_ in 0..4 {
            let mut t = vec![];
            // variants 1 and 2: ucinewgame first, and the command loop / the search thread held
            // back at a schedule point (whatever the go handler does after spawning the search then
            // happens while the search is already running)
            let env: Vec<(String, String)> = match proc_ {
                0 => vec![],
                1 => vec![("RCE_VERIF_SCHED".to_string(), "uci:spawned=60".to_string())],
                2 => vec![("RCE_VERIF_SCHED".to_string(), "uci:spawned=200,search:enter=30".to_string())],
                _ => vec![],
            };
            for (key, d) in &list {
                let (fen, moves) = split_key(key);
                // one engine process per search, so every search starts from an empty cache
                let Ok(mut e) = Engine::spawn(&ctx.engine, &env) else { continue };
                if proc_ == 1 || proc_ == 2 {
                    e.send("ucinewgame");
                }
                if moves.is_empty() {
                    e.send(&format!("position fen {fen}"));
                } else {
                    e.send(&format!("position fen {fen} moves {}", moves.join(" ")));
                }
                e.send(&format!("go depth {d}"));
                if proc_ == 3 {
                    // variant 3: the GUI keeps asking isready while the search runs (the command loop
                    // works alongside the search; whatever it touches must not change the search)
                    let mut flood = String::new();
                    for _ in 0..300 {
                        flood.push_str("isready\n");
                    }
                    e.send_raw(flood.as_bytes());
                }
                let best = e.wait_for(Duration::from_secs(60), |ev| (ev.stream == Stream::Out && ev.line.starts_with("bestmove")) || ev.eof);
                let nodes = e.stdout_lines().iter().rev().find(|l| l.line.starts_with("info") && l.line.contains(" nodes ")).and_then(|l| {
                    let toks: Vec<&str> = l.line.split_whitespace().collect();
                    toks.iter().position(|t| *t == "nodes").and_then(|i| toks.get(i + 1)).map(|s| s.to_string())
                });
                t.push((best.map(|b| b.line).unwrap_or_default(), nodes.unwrap_or_default()));
                e.send("quit");
                let _ = e.wait_exit(Duration::from_secs(2));
                rep.eval(1);
            }
            tables.push(t);
        }
        for k in 1..tables.len() {
            for (i, (a, b)) in tables[0].iter().zip(tables[k].iter()).enumerate() {
                if a.0.is_empty() || b.0.is_empty() || a.1.is_empty() || b.1.is_empty() {
                    rep.class("uci-search:unanswered-within-60s(not compared)");
                    continue;
                }
                if a != b {
                    rep.violation(Violation::new(
                        "across-processes",
                        "across-processes/uci-differs",
                        format!("'position fen {}' + 'go depth {}' answered {:?} in one engine process and {:?} in another", list[i].0, list[i].1, a, b),
                        json!({"fen": list[i].0, "depth": list[i].1}),
                    ));
                    break;
                }
            }
        }
        rep.class_n("uci-searches-compared-across-4-engine-processes", list.len() as u64);
        // a deep search (several hundred thousand cache entries) in three engine processes at
        // once, one of them frozen for a second in the middle; and the advertised options set
        // before a medium search: all must be identical
        {
            let bench = corp.with_tag_prefix("bench");
            let fen = corp.fens[bench[0]].clone();
            let run_many = |preambles: Vec<Vec<&str>>, depth: u32, freeze_first: bool| -> Vec<(String, String)> {
                let mut engines: Vec<Engine> = vec![];
                for pre in &preambles {
                    if let Ok(mut e) = Engine::spawn(&ctx.engine, &[]) {
                        for l in pre {
                            e.send(l);
                        }
                        e.send(&format!("position fen {fen}"));
                        e.send(&format!("go depth {depth}"));
                        engines.push(e);
                    }
                }
                if freeze_first {
                    if let Some(pid) = engines.first().map(|e| e.pid() as i32) {
                        std::thread::sleep(Duration::from_millis(1500));
                        unsafe {
                            libc::kill(pid, libc::SIGSTOP);
                        }
                        std::thread::sleep(Duration::from_millis(1200));
                        unsafe {
                            libc::kill(pid, libc::SIGCONT);
                        }
                    }
                }
                let mut out = vec![];
                for e in engines.iter_mut() {
                    let best = e.wait_for(Duration::from_secs(300), |ev| (ev.stream == Stream::Out && ev.line.starts_with("bestmove")) || ev.eof);
                    let nodes = e.stdout_lines().iter().rev().find(|l| l.line.starts_with("info")).and_then(|l| {
                        let toks: Vec<&str> = l.line.split_whitespace().collect();
                        toks.iter().position(|t| *t == "nodes").and_then(|i| toks.get(i + 1)).map(|s| s.to_string())
                    });
                    out.push((best.map(|b| b.line).unwrap_or_default(), nodes.unwrap_or_default()));
                    e.send("quit");
                }
                out
            };
            let deep = run_many(vec![vec![], vec![], vec![]], ctx.tier.pick(8, 9), true);
            rep.eval(deep.len() as u64);
            if deep.len() >= 2 {
                rep.nontrivial(o::hash_str("deep-search"));
                rep.class("deep-search(depth 8/9) x3 processes, one frozen 1.2 s");
                if deep.iter().any(|x| x.0.is_empty() || x.1.is_empty()) {
                    rep.class("deep-search:unanswered-within-300s(not compared)");
                } else if deep.iter().any(|x| x != &deep[0]) {
                    rep.violation(Violation::new("across-processes", "across-processes/deep-search-differs", format!("'position fen {fen}' + a deep 'go depth' answered differently in concurrent engine processes: {deep:?}"), json!({"fen": fen, "depth": 8})));
                }
                rep.samples.push(json!({"deep_search": fen, "results": deep}));
            }
            // deep searches of decided endings and mating attacks (tiny trees, depth 9-12): many root
            // moves cost exactly the same there, so anything that orders equals differently from
            // process to process (hash-map iteration order, addresses) changes the node count
            {
                let sparse: [(&str, u32); 8] = [
                    ("6k1/6p1/8/6KQ/1r6/q2b4/8/8 w - - 0 32", 11),
                    ("8/8/1p1kp1p1/p1pr1n1p/P6P/1R4P1/1P3PK1/1R6 b - - 15 45", 8),
                    ("7k/8/8/8/P7/8/8/6K1 w - - 0 1", 12),
                    ("8/8/8/3k4/8/3K4/4P3/7R w - - 10 80", 10),
                    ("8/5k2/8/8/8/2Q5/8/K7 w - - 0 1", 10),
                    ("4k3/8/8/8/8/8/3PP3/4K3 b - - 0 1", 12),
                    ("8/8/8/8/2n5/1k6/8/K1B5 b - - 4 60", 10),
                    ("r3k3/8/8/8/8/8/8/4K2R w K - 0 1", 9),
                ];
                for (fen, depth) in sparse.iter().take(ctx.tier.pick(5, 8)) {
                    let run4 = |depth: u32| -> Vec<(String, String)> {
                        let mut engines: Vec<Engine> = vec![];
                        for _ in 0..4 {
                            if let Ok(mut e) = Engine::spawn(&ctx.engine, &[]) {
                                e.send(&format!("position fen {fen}"));
                                e.send(&format!("go depth {depth}"));
                                engines.push(e);
                            }
                        }
                        let mut out = vec![];
                        for e in engines.iter_mut() {
                            let best = e.wait_for(Duration::from_secs(300), |ev| (ev.stream == Stream::Out && ev.line.starts_with("bestmove")) || ev.eof);
                            let nodes = e.stdout_lines().iter().rev().find(|l| l.line.starts_with("info")).and_then(|l| {
                                let toks: Vec<&str> = l.line.split_whitespace().collect();
                                toks.iter().position(|t| *t == "nodes").and_then(|i| toks.get(i + 1)).map(|s| s.to_string())
                            });
                            out.push((best.map(|b| b.line).unwrap_or_default(), nodes.unwrap_or_default()));
                            e.send("quit");
                        }
                        out
                    };
                    let r = run4(*depth);
                    rep.eval(r.len() as u64);
                    rep.class("deep-search-of-a-sparse-position x4 processes");
                    rep.nontrivial(o::hash_str(&format!("deep-sparse|{fen}|{depth}")));
                    if r.iter().any(|x| x.0.is_empty() || x.1.is_empty()) {
                        rep.class("deep-sparse:unanswered-within-300s(not compared)");
                    } else if r.iter().any(|x| x != &r[0]) {
                        rep.violation(Violation::new("across-processes", "across-processes/deep-sparse-differs", format!("'position fen {fen}' + 'go depth {depth}' answered differently in four fresh engine processes: {r:?}"), json!({"fen": fen, "depth": depth})));
                    }
                }
            }
            // a medium search (depth 6) answered quietly and while the GUI keeps sending isready
            // (bursts of 100 every 10 ms until the bestmove): the command loop runs alongside the
            // search and whatever it does must not change the search
            {
                let run1 = |flood: bool| -> (String, String) {
                    let Ok(mut e) = Engine::spawn(&ctx.engine, &[]) else { return (String::new(), String::new()) };
                    e.send(&format!("position fen {fen}"));
                    e.send("go depth 6");
                    let mut best = None;
                    let t = Instant::now();
                    while best.is_none() && t.elapsed() < Duration::from_secs(300) {
                        if flood {
                            let mut text = String::new();
                            for _ in 0..100 {
                                text.push_str("isready\n");
                            }
                            e.send_raw(text.as_bytes());
                        }
                        best = e.wait_for(Duration::from_millis(if flood { 10 } else { 1000 }), |ev| (ev.stream == Stream::Out && ev.line.starts_with("bestmove")) || ev.eof);
                    }
                    let nodes = e.stdout_lines().iter().rev().find(|l| l.line.starts_with("info") && l.line.contains(" nodes ")).and_then(|l| {
                        let toks: Vec<&str> = l.line.split_whitespace().collect();
                        toks.iter().position(|t| *t == "nodes").and_then(|i| toks.get(i + 1)).map(|s| s.to_string())
                    });
                    e.send("quit");
                    (best.map(|b| b.line).unwrap_or_default(), nodes.unwrap_or_default())
                };
                let quiet = run1(false);
                let f1 = run1(true);
                let f2 = run1(true);
                rep.eval(3);
                rep.class("depth-6 search quiet vs under a continuous isready flood x2");
                rep.nontrivial(o::hash_str("isready-flood-depth-6"));
                let all = [quiet.clone(), f1, f2];
                if all.iter().any(|x| x.0.is_empty() || x.1.is_empty()) {
                    rep.class("flooded-search:unanswered-within-300s(not compared)");
                } else if all.iter().any(|x| x != &quiet) {
                    rep.violation(Violation::new("across-processes", "across-processes/isready-flood-differs", format!("'position fen {fen}' + 'go depth 6' answered {:?} quietly and {:?} / {:?} while isready kept arriving", all[0], all[1], all[2]), json!({"fen": fen, "depth": 6})));
                }
            }
            let opt = run_many(vec![vec![], vec!["setoption name Hash value 1", "setoption name Threads value 1", "setoption name Move Overhead value 10"], vec!["setoption name Hash value 1"]], 6, false);
            rep.eval(opt.len() as u64);
            if opt.len() >= 2 {
                rep.nontrivial(o::hash_str("options-set"));
                rep.class("advertised-options-set-before-search x3");
                if opt.iter().any(|x| x.0.is_empty() || x.1.is_empty()) {
                    rep.class("options-search:unanswered-within-300s(not compared)");
                } else if opt.iter().any(|x| x != &opt[0]) {
                    rep.violation(Violation::new("across-processes", "across-processes/options-differs", format!("'position fen {fen}' + 'go depth 6' with and without the advertised options set (Hash 1, Threads 1, Move Overhead 10): {opt:?}"), json!({"fen": fen, "depth": 6})));
                }
            }
        }
        // a search that is the first and only one of its process must equal the same search
        // done as the n-th of a long-lived process (state leaking between searches)
        if let (Some(t0), Some(b)) = (tables.first(), base.as_ref().and_then(|b| b.as_array())) {
            for (i, (best, nodes)) in t0.iter().enumerate() {
                let (fen, d) = &list[i];
                if let Some(w) = b.iter().find(|x| x[0].as_str() == Some(fen.as_str()) && x[1].as_u64() == Some(*d as u64)) {
                    let wmove = w[2].as_str().unwrap_or("");
                    let wnodes = w[4].as_u64().unwrap_or(0).to_string();
                    let umove = best.split_whitespace().nth(1).unwrap_or("");
                    rep.eval(1);
                    if !nodes.is_empty() && !umove.is_empty() && (wmove != umove || wnodes != *nodes) {
                        rep.violation(Violation::new(
                            "across-processes",
                            "across-processes/fresh-vs-long-lived",
                            format!("{fen} depth {d}: a fresh engine process answered {umove} after {nodes} nodes, a long-lived process (n-th search, cache emptied) {wmove} after {wnodes} nodes"),
                            json!({"fen": fen, "depth": d}),
                        ));
                        break;
                    }
                }
            }
            rep.class("fresh-process-vs-long-lived-process-compared");
        }
    }
    let _ = freezer.join();
    // bench totals
    let mut totals = vec![];
    for c in benches {
        match c.wait_with_output() {
            Ok(o) => {
                let s = String::from_utf8_lossy(&o.stdout).to_string();
                match bench_nodes(&s) {
                    Some(n) => totals.push(n),
                    None => rep.infra_errors.push(format!("bench printed no node total: {s:?}")),
                }
            }
            Err(e) => rep.infra_errors.push(format!("bench failed: {e}")),
        }
    }
    rep.eval(totals.len() as u64);
    if totals.len() >= 2 {
        rep.nontrivial(o::hash_str("bench"));
        rep.class_n("bench-runs", totals.len() as u64);
        if totals.iter().any(|&t| t != totals[0]) {
            rep.violation(Violation::new("bench", "bench/node-total-differs", format!("concurrent runs of the bench subcommand printed different node totals: {totals:?}"), json!({"bench": true})));
        }
        rep.samples.push(json!({"bench_node_totals": totals}));
    }
    rep
}

pub fn replay(ctx: &Ctx, case: &Value) -> Report {
    let mut rep = Report::new();
    if case["cold_start"].as_bool() == Some(true) {
        let storm = cold_start_storm(ctx, 2000, 64);
        rep.eval(storm.len() as u64);
        if storm.iter().any(|x| x != &storm[0]) {
            rep.violation(Violation::new("across-processes", "across-processes/cold-start-differs", "freshly started engine processes answered the same first search differently", case.clone()));
        }
        return rep;
    }
    if case["bench"].as_bool() == Some(true) {
        let a = run_bench(ctx).and_then(|c| c.wait_with_output()).ok().and_then(|o| bench_nodes(&String::from_utf8_lossy(&o.stdout)));
        let b = run_bench(ctx).and_then(|c| c.wait_with_output()).ok().and_then(|o| bench_nodes(&String::from_utf8_lossy(&o.stdout)));
        rep.eval(2);
        if a != b {
            rep.violation(Violation::new("bench", "bench/node-total-differs", format!("bench node totals {a:?} vs {b:?}"), case.clone()));
        }
        return rep;
    }
    let fen = case["fen"].as_str().unwrap_or("");
    let d = case["depth"].as_u64().unwrap_or(3) as u8;
    let mut seen: Option<(String, i16, u64)> = None;
    for _ in 0..6 {
        let _ = one("rnbqkbnr/pppppppp/8/8/8/8/PPPPPPPP/RNBQKBNR w KQkq - 0 1", 2);
        if let Some(r) = one(fen, d) {
            rep.eval(1);
            match &seen {
                None => seen = Some(r),
                Some(p) if *p != r => {
                    rep.violation(Violation::new("same-process", "same-process/differs", format!("{fen} depth {d}: {p:?} then {r:?}"), case.clone()));
                    break;
                }
                _ => {}
            }
        }
    }
    rep
}

pub const LEVEL: &str = "exploration";
pub const RULE: &str = "(position, depth) = the 62 bench FENs at depth 4-5 (quick) / 5-6 (thorough), corpus positions at depth 3-4 and 30/120 positions WITH game history (10-16 plies of weighted play, so remembered repetitions matter), each searched from an emptied cache 3 times per process in different orders with searches of other positions in between, in 4 separate processes running at the same time as 10 busy-loop processes and as the real 'bench' subcommand (x2 quick / x4 thorough, one run frozen for 6 s by SIGSTOP/SIGCONT); the same searches as the only search of a fresh engine process (x4: plain; after ucinewgame with the command loop held 60 ms after spawning the search; after ucinewgame with 200 ms + the search thread held 30 ms; with 300 isready lines sent while the search runs) must equal the long-lived processes' results; one deep search (depth 8 quick / 9 thorough, > 250 000 cache entries) in three concurrent engine processes, one frozen for 1.2 s; five (quick) / eight (thorough) decided endings and mating attacks searched to depth 8-12 in four fresh processes each (many root moves cost the same there, so an ordering of equals that varies from process to process shows in the node count); a depth-6 search answered quietly and twice under a continuous isready flood; a depth-6 search with and without the advertised options set; each worker process starts with a different primer search (other side to move, drawn endings, a game with repetitions) and visits the list in its own rotation, reverse rotation and stride order; draw-rich positions (stalemate traps, fifty-move clocks 96-97, to-and-fro histories) are part of the list; a cold-start storm (4000 quick / 40000 thorough freshly started engine processes, 128 at a time while the busy loops run, the whole input written at once so the first search overlaps with whatever the process does right after start-up) must give one single (bestmove, nodes) answer; oracle = equality of (bestmove, root score, node count) across all repetitions and processes, and of the bench node total. Non-trivial = (position, depth) with >= 1000 nodes, plus the bench comparison; distinct by (position, depth).";
pub const ASSUMPTIONS: &[&str] = &["equality is the whole oracle; nothing is assumed about which move is best", "machine load is produced by the harness itself (10 busy loops + concurrent bench runs on 16 cores)"];
