//! Driver for the real engine binary: owns its three pipes, stamps every line with a
//! monotonic time, and lets checks wait for lines with deadlines.

use std::io::{BufRead, BufReader, Write};
use std::path::Path;
use std::process::{Child, ChildStdin, Command, ExitStatus, Stdio};
use std::sync::mpsc::{channel, Receiver, RecvTimeoutError};
use std::time::{Duration, Instant};

#[derive(Clone, Copy, Debug, PartialEq, Eq)]
pub enum Stream {
    In,
    Out,
    Err,
}

#[derive(Clone, Debug)]
pub struct Event {
    pub t: Duration,
    pub stream: Stream,
    pub line: String,
    pub eof: bool,
}

pub struct Engine {
    child: Child,
    stdin: Option<ChildStdin>,
    rx: Receiver<Event>,
    pub start: Instant,
    pub log: Vec<Event>,
    /// index into `log` up to which events have been consumed by wait_for
    cursor: usize,
    pub stderr_bytes: usize,
}

impl Engine {
    pub fn spawn(bin: &Path, env: &[(String, String)]) -> std::io::Result<Engine> {
        let mut cmd = Command::new(bin);
        cmd.stdin(Stdio::piped()).stdout(Stdio::piped()).stderr(Stdio::piped());
        cmd.env_remove("RCE_VERIF_SCHED");
        cmd.env("RUST_BACKTRACE", "0");
        for (k, v) in env {
            cmd.env(k, v);
        }
        let mut child = cmd.spawn()?;
        let start = Instant::now();
        let (tx, rx) = channel::<Event>();
        let out = child.stdout.take().unwrap();
        let err = child.stderr.take().unwrap();
        for (stream, rd) in [(Stream::Out, Box::new(out) as Box<dyn std::io::Read + Send>), (Stream::Err, Box::new(err) as Box<dyn std::io::Read + Send>)] {
            let tx = tx.clone();
            std::thread::spawn(move || {
                let mut br = BufReader::new(rd);
                let mut buf = Vec::new();
                let mut lines: u64 = 0;
                loop {
                    buf.clear();
                    match br.read_until(b'\n', &mut buf) {
                        Ok(0) | Err(_) => {
                            let _ = tx.send(Event { t: start.elapsed(), stream, line: String::new(), eof: true });
                            break;
                        }
                        Ok(_) => {
                            lines += 1;
                            // a runaway engine (e.g. spinning on a closed stdin) must not exhaust memory
                            if lines > 200_000 {
                                if lines == 200_001 {
                                    let _ = tx.send(Event { t: start.elapsed(), stream, line: "<<flood: further lines dropped>>".into(), eof: false });
                                }
                                continue;
                            }
                            let line = String::from_utf8_lossy(&buf).trim_end_matches(['\n', '\r']).to_string();
                            if tx.send(Event { t: start.elapsed(), stream, line, eof: false }).is_err() {
                                break;
                            }
                        }
                    }
                }
            });
        }
        let stdin = child.stdin.take();
        Ok(Engine { child, stdin, rx, start, log: vec![], cursor: 0, stderr_bytes: 0 })
    }

    pub fn pid(&self) -> u32 {
        self.child.id()
    }

    /// CPU time (user + system, all threads) the engine process has consumed so far.
    pub fn cpu_ms(&self) -> Option<u64> {
        let text = std::fs::read_to_string(format!("/proc/{}/stat", self.child.id())).ok()?;
        let rest = &text[text.rfind(')')? + 1..];
        let f: Vec<&str> = rest.split_whitespace().collect();
        // after the command name: state is f[0], utime f[11], stime f[12] (clock ticks, 100 Hz)
        let ut: u64 = f.get(11)?.parse().ok()?;
        let st: u64 = f.get(12)?.parse().ok()?;
        Some((ut + st) * 10)
    }

    /// (threads that are running or waiting for a CPU, all threads)
    pub fn threads_runnable(&self) -> (usize, usize) {
        let mut run = 0;
        let mut all = 0;
        if let Ok(rd) = std::fs::read_dir(format!("/proc/{}/task", self.child.id())) {
            for t in rd.flatten() {
                if let Ok(text) = std::fs::read_to_string(t.path().join("stat")) {
                    if let Some(i) = text.rfind(')') {
                        all += 1;
                        if text[i + 1..].split_whitespace().next() == Some("R") {
                            run += 1;
                        }
                    }
                }
            }
        }
        (run, all)
    }

    /// Was the engine kept from running?  True when, over the last `wall`, it consumed less than
    /// a third of one CPU although at least one of its threads wanted to run (sampled 5 times).
    /// A wedged engine (every thread asleep) and a busy one (CPU consumed) are not starved.
    pub fn starved(&self, cpu_before_ms: Option<u64>, wall: Duration) -> bool {
        // the harness itself may be the one that cannot run (its reader threads stamp lines
        // when they get to read them): five 5 ms sleeps that take more than 150 ms extra
        if harness_overloaded() {
            return true;
        }
        let (Some(a), Some(b)) = (cpu_before_ms, self.cpu_ms()) else { return false };
        let used = b.saturating_sub(a);
        if used * 3 >= wall.as_millis() as u64 {
            return false;
        }
        let mut wanted = 0;
        for _ in 0..5 {
            if self.threads_runnable().0 > 0 {
                wanted += 1;
            }
            std::thread::sleep(Duration::from_millis(2));
        }
        wanted >= 2
    }

    pub fn now(&self) -> Duration {
        self.start.elapsed()
    }

    pub fn send(&mut self, line: &str) -> bool {
        self.log.push(Event { t: self.start.elapsed(), stream: Stream::In, line: line.to_string(), eof: false });
        match self.stdin.as_mut() {
            Some(s) => s.write_all(line.as_bytes()).and_then(|_| s.write_all(b"\n")).and_then(|_| s.flush()).is_ok(),
            None => false,
        }
    }

    pub fn send_raw(&mut self, bytes: &[u8]) -> bool {
        self.log.push(Event { t: self.start.elapsed(), stream: Stream::In, line: String::from_utf8_lossy(bytes).into_owned(), eof: false });
        match self.stdin.as_mut() {
            Some(s) => s.write_all(bytes).and_then(|_| s.flush()).is_ok(),
            None => false,
        }
    }

    pub fn close_stdin(&mut self) {
        self.log.push(Event { t: self.start.elapsed(), stream: Stream::In, line: "<<EOF>>".into(), eof: true });
        self.stdin = None;
    }

    fn pump(&mut self, timeout: Duration) -> bool {
        match self.rx.recv_timeout(timeout) {
            Ok(ev) => {
                if ev.stream == Stream::Err {
                    self.stderr_bytes += ev.line.len();
                }
                self.log.push(ev);
                true
            }
            Err(RecvTimeoutError::Timeout) => false,
            Err(RecvTimeoutError::Disconnected) => false,
        }
    }

    /// Consume events (from the cursor on) until `pred` matches one, or `deadline` (from
    /// now) passes.  Returns the matching event.  Events that do not match stay in the log.
    pub fn wait_for(&mut self, deadline: Duration, mut pred: impl FnMut(&Event) -> bool) -> Option<Event> {
        let until = Instant::now() + deadline;
        loop {
            while self.cursor < self.log.len() {
                let ev = self.log[self.cursor].clone();
                self.cursor += 1;
                if ev.stream != Stream::In && pred(&ev) {
                    return Some(ev);
                }
            }
            let now = Instant::now();
            if now >= until {
                return None;
            }
            if !self.pump(until - now) {
                // timeout or both streams closed
                if Instant::now() >= until {
                    return None;
                }
                std::thread::sleep(Duration::from_millis(1));
            }
        }
    }

    /// Collect whatever arrives within `d` (nothing is consumed from the cursor).
    pub fn settle(&mut self, d: Duration) {
        let until = Instant::now() + d;
        loop {
            let now = Instant::now();
            if now >= until {
                break;
            }
            self.pump(until - now);
        }
    }

    pub fn drain(&mut self) {
        while self.pump(Duration::from_millis(0)) {}
    }

    pub fn try_status(&mut self) -> Option<ExitStatus> {
        self.child.try_wait().ok().flatten()
    }

    pub fn wait_exit(&mut self, d: Duration) -> Option<ExitStatus> {
        let until = Instant::now() + d;
        loop {
            if let Some(s) = self.try_status() {
                self.drain();
                return Some(s);
            }
            if Instant::now() >= until {
                return None;
            }
            self.pump(Duration::from_millis(5));
        }
    }

    pub fn kill(&mut self) {
        let _ = self.child.kill();
        let _ = self.child.wait();
    }

    pub fn stdout_lines(&self) -> Vec<&Event> {
        self.log.iter().filter(|e| e.stream == Stream::Out && !e.eof).collect()
    }
    pub fn stderr_lines(&self) -> Vec<&Event> {
        self.log.iter().filter(|e| e.stream == Stream::Err && !e.eof).collect()
    }

    /// `isready` -> `readyok` within `d`?
    pub fn ready(&mut self, d: Duration) -> bool {
        if !self.send("isready") {
            return false;
        }
        self.wait_for(d, |e| e.stream == Stream::Out && e.line.trim() == "readyok").is_some()
    }

    pub fn transcript(&self, max: usize) -> Vec<String> {
        let mut v: Vec<String> = self
            .log
            .iter()
            .map(|e| {
                let tag = match e.stream {
                    Stream::In => ">",
                    Stream::Out => "<",
                    Stream::Err => "!",
                };
                let mut l = e.line.clone();
                if l.len() > 200 {
                    l.truncate(200);
                    l.push_str("...");
                }
                format!("{:>8.3}s {tag} {}{}", e.t.as_secs_f64(), l, if e.eof { " <<eof>>" } else { "" })
            })
            .collect();
        if v.len() > max {
            let cut = v.len() - max;
            v.drain(0..cut);
            v.insert(0, format!("... ({cut} earlier lines omitted)"));
        }
        v
    }
}

impl Drop for Engine {
    fn drop(&mut self) {
        self.stdin = None;
        let _ = self.child.kill();
        let _ = self.child.wait();
    }
}

/// Is this very process being kept from running?  Five 5 ms sleeps that take more than 150 ms extra.
pub fn harness_overloaded() -> bool {
    let t = Instant::now();
    for _ in 0..5 {
        std::thread::sleep(Duration::from_millis(5));
    }
    t.elapsed() > Duration::from_millis(25 + 150)
}

pub fn is_panic_line(line: &str) -> bool {
    line.contains("panicked at")
}

/// thread name in a Rust panic message: "thread 'main' panicked at" / "thread '<unnamed>' panicked at"
pub fn panic_thread(line: &str) -> Option<String> {
    let i = line.find("thread '")?;
    let rest = &line[i + 8..];
    let j = rest.find('\'')?;
    Some(rest[..j].to_string())
}
