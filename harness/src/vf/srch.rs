//! In-process driver for the engine's `Search`.

use super::eng;
use super::frame::{drain_stdout, guard};
use crate::board::transposition_table::{Bounds, TTEntry, TRANSPOSITION_TABLE};
use crate::board::{Board, Ply};
use crate::evaluate::simple_evaluator::SimpleEvaluator;
use crate::search::limits::SearchLimits;
use crate::search::Search;

#[derive(Clone, Debug, Default)]
pub struct SearchResult {
    /// the root's cache entry after the search (written last, by the final completed iteration)
    pub root_move: Option<String>,
    pub root_score: Option<i16>,
    pub root_depth: Option<u8>,
    pub nodes: u64,
    pub panicked: Option<String>,
    /// everything the search printed
    pub stdout: String,
    pub bestmove: Option<String>,
}

pub fn clear_tt() {
    TRANSPOSITION_TABLE.write().unwrap_or_else(std::sync::PoisonError::into_inner).clear();
}

pub fn tt_len() -> usize {
    TRANSPOSITION_TABLE.read().unwrap_or_else(std::sync::PoisonError::into_inner).len()
}

pub fn tt_get(board: &Board) -> Option<TTEntry> {
    TRANSPOSITION_TABLE.read().unwrap_or_else(std::sync::PoisonError::into_inner).get(&board.zkey).copied()
}

pub fn set_tt_off(on: bool) {
    crate::verif_hooks::TT_OFF.store(on, std::sync::atomic::Ordering::Relaxed);
}

pub fn run_search(board: &Board, depth: Option<u8>, limits: Option<SearchLimits>) -> SearchResult {
    run_search_with(board, depth, limits, |_| {})
}

/// `on_start` receives the search's running flag before the search begins (for stops that
/// arrive from another thread).
pub fn run_search_with(board: &Board, depth: Option<u8>, limits: Option<SearchLimits>, on_start: impl FnOnce(std::sync::Arc<std::sync::atomic::AtomicBool>)) -> SearchResult {
    let _ = drain_stdout();
    let mut res = SearchResult::default();
    let mut search = Search::new(board, limits);
    on_start(search.running.clone());
    let r = guard(|| {
        search.search(&SimpleEvaluator, depth);
    });
    res.nodes = search.get_nodes();
    if let Err(p) = r {
        res.panicked = Some(p);
    }
    res.stdout = drain_stdout();
    for line in res.stdout.lines() {
        if let Some(rest) = line.strip_prefix("bestmove ") {
            res.bestmove = rest.split_whitespace().next().map(String::from);
        }
    }
    if let Some(e) = tt_get(board) {
        res.root_move = Some(eng::ply_uci(&e.best_ply));
        res.root_score = Some(e.score);
        res.root_depth = Some(e.depth);
    }
    res
}
