//! C04 - the position key is a function of the position, however it was reached.
//!
//! After every make **and** every unmake of generated op sequences: incremental key ==
//! from-scratch key == key of the oracle-FEN reload; a run-wide table position-id -> key
//! must never see a second key for a known id (any path, any start, FEN loads included);
//! explicit transposition probes (a x b y vs b x a y).

use super::c01::move_kind;
use super::c02::{ops_strategy, script_of, OpsCase};
use super::frame::*;
use super::oracle::{self as o, Game, Mv, Pos};
use super::{corpus, eng, gen};
use crate::board::zkey::ZKey;
use crate::board::Board;
use serde_json::{json, Value};
use std::collections::HashMap;

pub struct Table {
    /// position identity (128-bit fingerprint of the 34-byte id) -> (key, path hash, clocks at first arrival)
    pub map: HashMap<u128, (u64, u32, u32, u32)>,
}

fn case(start_fen: &str, ops: &[String]) -> Value {
    json!({"start_fen": start_fen, "ops": ops})
}

fn check_keys(board: &Board, pos: &Pos, table: &mut Table, path_hash: u32, start_fen: &str, done: &[String], what: &str, kind: &str, rep: &mut Report) -> Result<(), Violation> {
    rep.eval(1);
    let inc = eng::key_u64(board.zkey);
    let scratch = eng::key_u64(ZKey::from(board));
    if inc != scratch {
        return Err(Violation::new(
            "incremental",
            &format!("incremental/{what}/{kind}"),
            format!("after {what} of a {kind} move: incremental key {inc:#018x} != from-scratch key {scratch:#018x} at {} [{}]", pos.to_fen(), done.join("; ")),
            case(start_fen, done),
        ));
    }
    let fen = pos.to_fen();
    match guard(|| Board::from_fen(&fen).zkey) {
        Ok(k) => {
            let k = eng::key_u64(k);
            if k != inc {
                return Err(Violation::new(
                    "fen-reload",
                    &format!("fen-reload/{what}/{kind}"),
                    format!("key by play {inc:#018x} != key of the FEN reload {k:#018x} for {fen} [{}]", done.join("; ")),
                    case(start_fen, done),
                ));
            }
        }
        Err(_) => {} // C07's subject
    }
    let id = pos.pos_id().fp128();
    match table.map.get(&id) {
        Some(&(k, ph, hmc0, fmn0)) => {
            if k != inc {
                // the first arrival is reproduced by loading the same position with the
                // clocks it had then (its key equalled that FEN reload's key)
                let mut first = pos.clone();
                first.hmc = hmc0;
                first.fmn = fmn0;
                return Err(Violation::new(
                    "path-independence",
                    &format!("path-independence/{what}/{kind}"),
                    format!("position {fen} has key {inc:#018x} here but had {k:#018x} when reached another way (then with clocks {hmc0} {fmn0}) [{}]", done.join("; ")),
                    json!({"scripts": [{"start_fen": first.to_fen(), "ops": []}, {"start_fen": start_fen, "ops": done}]}),
                ));
            }
            if ph != path_hash {
                rep.class("table-hit:different-path");
                rep.nontrivial(o::hash_bytes(&id.to_le_bytes(), path_hash as u64));
            }
        }
        None => {
            table.map.insert(id, (inc, path_hash, pos.hmc, pos.fmn));
        }
    }
    Ok(())
}

pub fn run_script(start_fen: &str, script: &[String], table: &mut Table, rep: &mut Report) -> Result<(), Violation> {
    let Ok(start) = Pos::from_fen(start_fen) else { return Ok(()) };
    let Ok(mut board) = guard(|| Board::from_fen(start_fen)) else { return Ok(()) };
    let mut game = Game::new(start);
    let mut done: Vec<String> = vec![];
    let mut kinds: Vec<&'static str> = vec![];
    let ph0 = o::hash_str(start_fen) as u32;
    check_keys(&board, &game.cur, table, ph0, start_fen, &done, "load", "start", rep)?;
    for entry in script {
        let (op, arg) = entry.split_once(' ').unwrap_or((entry.as_str(), ""));
        match op {
            "make" => {
                let Some(m) = game.cur.find_legal(arg) else { continue };
                let Some(ply) = eng::find_ply(&board, arg) else { continue };
                let before = game.cur.clone();
                done.push(entry.clone());
                if let Err(pm) = guard(|| board.make_move(ply)) {
                    return Err(Violation::new("incremental", &format!("incremental/panic/{}", panic_site(&pm)), format!("make_move({arg}) panicked: {pm}"), case(start_fen, &done)));
                }
                game.play(m);
                let kind = move_kind(&m);
                kinds.push(kind);
                let changes = before.cr != game.cur.cr || before.ep != game.cur.ep || m.is_promo() || m.is_capture();
                if changes {
                    rep.class(&format!("make:{}", if before.cr != game.cur.cr { "rights-change" } else if before.ep != game.cur.ep { "ep-change" } else { kind }));
                    rep.nontrivial(o::hash_bytes(&before.pos_id().0, (m.from as u64) << 16 | (m.to as u64) << 8 | m.promo as u64));
                }
                let ph = o::hash_str(&format!("{start_fen}{}", done.join(""))) as u32;
                check_keys(&board, &game.cur, table, ph, start_fen, &done, "make", kind, rep)?;
            }
            "unmake" => {
                if game.moves.is_empty() {
                    continue;
                }
                done.push(entry.clone());
                let kind = kinds.pop().unwrap_or("quiet");
                if let Err(pm) = guard(|| board.unmake_move()) {
                    return Err(Violation::new("incremental", &format!("incremental/panic/{}", panic_site(&pm)), format!("unmake_move panicked: {pm}"), case(start_fen, &done)));
                }
                game.undo();
                rep.class("unmake");
                if kind != "quiet" {
                    rep.class(&format!("unmake:{kind}"));
                    rep.nontrivial(o::hash_bytes(&game.cur.pos_id().0, 0xABCD ^ o::hash_str(kind)));
                }
                let ph = o::hash_str(&format!("{start_fen}{}", done.join(""))) as u32;
                check_keys(&board, &game.cur, table, ph, start_fen, &done, "unmake", kind, rep)?;
            }
            _ => {}
        }
    }
    Ok(())
}

/// Explicit transposition probe from the end position of a line: a x b y versus b x a y.
pub fn transposition_probe(start_fen: &str, line: &[String], ent: &[u16], table: &mut Table, rep: &mut Report) -> Result<(), Violation> {
    let Ok(start) = Pos::from_fen(start_fen) else { return Ok(()) };
    let mut p = start;
    for e in line {
        if let Some(u) = e.strip_prefix("make ") {
            match p.find_legal(u) {
                Some(m) => p = p.make(m),
                None => return Ok(()),
            }
        } else if e == "unmake" {
            return Ok(()); // only lines without take-backs are used as probe bases
        }
    }
    let mut e = Entropy::new(ent);
    let la = p.legal_moves();
    if la.len() < 2 {
        return Ok(());
    }
    let a = la[e.pick(la.len())];
    let pa = p.make(a);
    let lx = pa.legal_moves();
    if lx.is_empty() {
        return Ok(());
    }
    let x = lx[e.pick(lx.len())];
    let pax = pa.make(x);
    let lb = pax.legal_moves();
    if lb.is_empty() {
        return Ok(());
    }
    let b = lb[e.pick(lb.len())];
    let paxb = pax.make(b);
    let ly = paxb.legal_moves();
    if ly.is_empty() {
        return Ok(());
    }
    let y = ly[e.pick(ly.len())];
    let end1 = paxb.make(y);
    // other order
    let Some(b2) = p.find_legal(&b.uci()) else { return Ok(()) };
    let pb = p.make(b2);
    let Some(x2) = pb.find_legal(&x.uci()) else { return Ok(()) };
    let pbx = pb.make(x2);
    let Some(a2) = pbx.find_legal(&a.uci()) else { return Ok(()) };
    let pbxa = pbx.make(a2);
    let Some(y2) = pbxa.find_legal(&y.uci()) else { return Ok(()) };
    let end2 = pbxa.make(y2);
    if a == b || end1.pos_id() != end2.pos_id() {
        return Ok(());
    }
    rep.class("transposition-pair");
    let base: Vec<String> = line.to_vec();
    let mut s1 = base.clone();
    for m in [a, x, b, y] {
        s1.push(format!("make {}", m.uci()));
    }
    let mut s2 = base;
    for m in [b, x, a, y] {
        s2.push(format!("make {}", m.uci()));
    }
    run_script(start_fen, &s1, table, rep)?;
    run_script(start_fen, &s2, table, rep)?;
    Ok(())
}

pub const SHARDS: usize = 16;

pub fn run(ctx: &Ctx) -> Report {
    if ctx.shard.is_none() {
        let mut rep = run_sharded(ctx, SHARDS, SHARDS);
        if ctx.tier == Tier::Thorough {
            super::fuzzplay::campaign(ctx, "C04", &mut rep);
        }
        return rep;
    }
    let mut rep = Report::new();
    let corp = corpus::load(&ctx.verif);
    let table = std::cell::RefCell::new(Table { map: HashMap::new() });
    // a very long game (1100 plies; 2300 in the thorough tier) made ply by ply and then taken
    // back completely, the key compared after every make and every unmake
    if ctx.shard_index() == 1 {
        let plies = ctx.tier.pick(1100, 2300);
        let mut script = super::c02::long_game_script(plies);
        for _ in 0..plies {
            script.push("unmake".into());
        }
        rep.class("shape:very-long-game(>1000 plies, fully taken back)");
        let mut t = Table { map: HashMap::new() };
        if let Err(v) = run_script(&Pos::startpos().to_fen(), &script, &mut t, &mut rep) {
            if let Some(k) = ctx.is_known(&v.sig) {
                rep.known(&v.sig, &k.text);
            } else {
                rep.violation(v);
            }
        }
    }
    let cases = ctx.tier.pick(120_000, 1_000_000) / ctx.shard_count() as u32;
    let max_len = ctx.tier.pick(100, 160);
    let strat = (ops_strategy(max_len), proptest::collection::vec(proptest::prelude::any::<u16>(), 4));
    run_prop(ctx, "c04-ops", cases, 3000, strat, &mut rep, |(case_, tp), rep| {
        let Some((start_fen, script, label)) = script_of(case_, &corp) else {
            rep.class("start:rejected");
            return Ok(());
        };
        rep.class(&format!("start:{}", label.split(':').next().unwrap_or("")));
        rep.sample(|| json!({"start": label, "start_fen": start_fen, "ops": script.join("; ")}));
        let mut t = table.borrow_mut();
        // shrinking re-executions must not be confused by entries of the failing run:
        // the table only ever holds (id -> key) facts, which stay true or are the violation
        run_script(&start_fen, &script, &mut t, rep)?;
        // probe from a prefix without take-backs
        let prefix: Vec<String> = script.iter().take_while(|s| s.starts_with("make ")).cloned().collect();
        transposition_probe(&start_fen, &prefix, tp, &mut t, rep)
    });
    rep.extra.insert("table_entries".into(), json!(table.borrow().map.len() as u64));
    rep
}

pub fn replay(_ctx: &Ctx, case_: &Value) -> Report {
    let mut rep = Report::new();
    let mut table = Table { map: HashMap::new() };
    // a path-independence failure needs both ways of reaching the position
    if let Some(arr) = case_["scripts"].as_array() {
        for s in arr {
            let ops: Vec<String> = s["ops"].as_array().map(|a| a.iter().filter_map(|x| x.as_str().map(String::from)).collect()).unwrap_or_default();
            if let Err(v) = run_script(s["start_fen"].as_str().unwrap_or(""), &ops, &mut table, &mut rep) {
                rep.violation(v);
                return rep;
            }
        }
        return rep;
    }
    let start_fen = case_["start_fen"].as_str().unwrap_or("");
    let ops: Vec<String> = case_["ops"].as_array().map(|a| a.iter().filter_map(|x| x.as_str().map(String::from)).collect()).unwrap_or_default();
    if let Err(v) = run_script(start_fen, &ops, &mut table, &mut rep) {
        rep.violation(v);
    }
    rep
}

pub const LEVEL: &str = "exploration";
pub const RULE: &str = "proptest-generated op sequences (makes and take-backs interleaved; special-move-weighted play) from startpos / corpus / synthesised / pattern starts, plus explicit transposition probes (a x b y vs b x a y when both orders are legal and reach the same position). After the load, every make and every unmake: board.zkey == ZKey::from(&board) == Board::from_fen(oracle FEN).zkey, and a shard-wide table position-id -> key never sees a second key for a known id. Non-trivial = make/unmake steps that change castling rights, set or clear the e.p. file, promote or capture, and table hits by a different path; distinct by (position, move) resp. (position, path). Plus one very long game (1100 plies quick / 2300 thorough) made and then taken back completely.";
pub const ASSUMPTIONS: &[&str] = &[
    "position identity = oracle's (placement, side, rights, e.p. file), compared through a 128-bit fingerprint",
    "the table is per shard (16 shards); cross-shard transpositions are covered by the FEN-reload equality, which is path-free",
];
