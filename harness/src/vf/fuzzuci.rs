//! Text-driven UCI sessions: the decoder behind the libFuzzer target `fuzz_uci` and behind
//! `rce_check C08|C15 --replay <raw artifact>`.  Bytes are read as text lines, exactly as
//! `uci_loop` would read them; every line is classified by a strict reading of the UCI
//! grammar on the oracle side, so that only lines the properties speak about are judged:
//!
//! * C15 pass: every admissible line goes through the session object (lines that would
//!   start a search or quit only through the parser); a panic is what would have killed the
//!   main thread.
//! * C08 pass: in-grammar `position` commands must be accepted exactly when every move is
//!   legal, and after EVERY line the session board must be the model position.
//!
//! The statement of C15 assumes valid FEN arguments: a line with a `fen` keyword is fed
//! only when a complete, canonical, valid FEN follows it directly after `position`.

use super::c01;
use super::c03::pos_diff;
use super::c05::pos_of_id;
use super::frame::*;
use super::oracle::{self as o, Game, Pos};
use super::{c08, c15, corpus, eng};
use crate::board::Board;
use crate::uci::verif::Session;
use proptest::strategy::{Strategy, ValueTree};
use serde_json::{json, Value};

pub const MAX_LINES: usize = 12;
pub const MAX_LINE_BYTES: usize = 700;

#[derive(Clone, Debug)]
pub enum Kind {
    /// not fed at all (a `fen` keyword without a valid FEN behind it)
    Drop,
    /// would start a search or end the session: parser only
    ParseOnly,
    /// `position startpos|fen F [moves m1..mk]`, k >= 1 when `moves` is present
    Position(Option<Game>),
    /// exactly `ucinewgame`
    NewGame,
    /// cannot change the position under any reading of the protocol
    Plain,
    /// fed, no panic allowed, but the properties do not say what the position is afterwards
    Soft,
}

impl Kind {
    pub fn name(&self) -> &'static str {
        match self {
            Kind::Drop => "dropped:invalid-fen-argument",
            Kind::ParseOnly => "parse-only:go-or-quit",
            Kind::Position(Some(_)) => "position:legal-game",
            Kind::Position(None) => "position:illegal-move",
            Kind::NewGame => "ucinewgame",
            Kind::Plain => "plain",
            Kind::Soft => "soft:outside-position-grammar",
        }
    }
}

/// A FEN argument the properties' assumption covers: readable by the oracle, written in
/// canonical form (so no "11" for "2", no "KK", e.p. square on the right rank), a valid
/// chess position, counters in the range C07 generates.
pub fn valid_fen_arg(fields: &[&str]) -> Option<Pos> {
    if fields.len() != 4 && fields.len() != 6 {
        return None;
    }
    let text = fields.join(" ");
    let p = Pos::from_fen(&text).ok()?;
    p.is_valid_start().ok()?;
    let canon = if fields.len() == 4 { p.to_fen4() } else { p.to_fen() };
    if canon != text {
        return None;
    }
    if p.hmc > 100 || p.fmn == 0 || p.fmn > 30_000 {
        return None;
    }
    // material a game of chess can produce, and at most a double check
    for white in [true, false] {
        let mine = p.sq.iter().filter(|&&c| c != 0 && o::is_white(c) == white).count();
        let pawns = p.sq.iter().filter(|&&c| c == o::mk(white, o::P)).count();
        if mine > 16 || pawns > 8 {
            return None;
        }
    }
    if let Some(k) = p.king_sq(p.wtm) {
        if p.attackers_count(k, !p.wtm) > 2 {
            return None;
        }
    }
    Some(p)
}

pub fn classify(line: &str) -> Kind {
    let toks: Vec<&str> = line.trim().split_whitespace().collect();
    if toks.iter().any(|t| *t == "go" || *t == "quit") {
        // also covers an engine that skips unknown leading words, as the protocol allows
        return if toks.iter().any(|t| *t == "fen") { Kind::Drop } else { Kind::ParseOnly };
    }
    let fen_at = toks.iter().position(|t| *t == "fen");
    if toks.first() == Some(&"position") {
        let (start, rest): (Pos, &[&str]) = match toks.get(1) {
            Some(&"startpos") => {
                if fen_at.is_some() {
                    return Kind::Drop;
                }
                (Pos::startpos(), &toks[2..])
            }
            Some(&"fen") => {
                let end = toks.iter().position(|t| *t == "moves").unwrap_or(toks.len());
                if end < 2 || toks[2..].iter().any(|t| *t == "fen") {
                    return Kind::Drop;
                }
                match valid_fen_arg(&toks[2..end]) {
                    Some(p) => (p, &toks[end..]),
                    None => return Kind::Drop,
                }
            }
            _ => return if fen_at.is_some() { Kind::Drop } else { Kind::Soft },
        };
        if rest.is_empty() {
            return Kind::Position(Some(Game::new(start)));
        }
        if rest[0] != "moves" || rest.len() < 2 {
            return Kind::Soft;
        }
        let mut g = Game::new(start);
        for u in &rest[1..] {
            match g.cur.find_legal(u) {
                Some(m) => g.play(m),
                None => return Kind::Position(None),
            }
        }
        return Kind::Position(Some(g));
    }
    if fen_at.is_some() {
        return Kind::Drop;
    }
    if toks.len() == 1 && toks[0] == "ucinewgame" {
        return Kind::NewGame;
    }
    if toks.iter().any(|t| *t == "position" || *t == "ucinewgame") {
        return Kind::Soft;
    }
    Kind::Plain
}

pub fn lines_of(data: &[u8]) -> Vec<String> {
    String::from_utf8_lossy(data)
        .split('\n')
        .take(MAX_LINES)
        .map(|l| {
            let mut l = l.trim_end_matches('\r').to_string();
            if l.len() > MAX_LINE_BYTES {
                let mut cut = MAX_LINE_BYTES;
                while !l.is_char_boundary(cut) {
                    cut -= 1;
                }
                l.truncate(cut);
            }
            l
        })
        .collect()
}

fn short(s: &str) -> String {
    if s.len() > 160 {
        let mut cut = 160;
        while !s.is_char_boundary(cut) {
            cut -= 1;
        }
        format!("{}... ({} bytes)", &s[..cut], s.len())
    } else {
        s.to_string()
    }
}

/// C15 pass
pub fn run_survive(lines: &[String], rep: &mut Report) -> Result<(), Violation> {
    let mut sess = match guard(Session::new) {
        Ok(s) => s,
        Err(pm) => return Err(Violation::new("survive", "survive/main-panic-inprocess/new", format!("Session::new panicked: {pm}"), json!(null))),
    };
    let mut sent: Vec<String> = vec![];
    for l in lines {
        let k = classify(l);
        rep.class(&format!("fuzz-line:{}", k.name()));
        let r = match k {
            Kind::Drop => continue,
            Kind::ParseOnly => guard(|| {
                let _ = Session::parse_only(l);
            }),
            _ => guard(|| {
                let _ = sess.line(l);
            }),
        };
        sent.push(l.clone());
        rep.eval(1);
        if let Err(pm) = r {
            let _ = drain_stdout();
            return Err(Violation::new(
                "survive",
                &format!("survive/main-panic-inprocess/{}", panic_site(&pm)),
                format!("line '{}' panicked in the command parser/executor: {pm}", short(l.trim())),
                json!({"lines": sent}),
            ));
        }
    }
    let _ = drain_stdout();
    Ok(())
}

fn state_check(board: &Board, model: &Game, line: &str, why: &str, sent: &[String]) -> Result<(), Violation> {
    let cj = json!({"lines": sent});
    let snap = eng::snapshot(board);
    let d = pos_diff(&snap, &model.cur);
    if !d.is_empty() {
        return Err(Violation::new(
            "position",
            &format!("position/{why}/{}", d.join("+")),
            format!("after '{}' the session position is {} but should be {} (differs in {})", short(line), snap.to_fen(), model.cur.to_fen(), d.join(",")),
            cj,
        ));
    }
    c01::check_node(&model.cur, board, &model.start.to_fen(), &model.moves_uci()).map_err(|mut v| {
        v.sig = format!("position/behaviour/{}", v.sig);
        v.clause = "position".into();
        v.replay = cj.clone();
        v
    })?;
    let fen = model.cur.to_fen();
    if let Ok(k) = guard(|| Board::from_fen(&fen).zkey) {
        if k != board.zkey {
            return Err(Violation::new("position", "position/key", format!("after '{}' the session key differs from the key of {fen}", short(line)), cj));
        }
    }
    for id in &model.earlier {
        let f = pos_of_id(id).to_fen();
        if let Ok(k) = guard(|| Board::from_fen(&f).zkey) {
            if !board.position_reached(k) {
                return Err(Violation::new("position", "position/earlier-not-remembered", format!("after '{}' an earlier position of the accepted game ({f}) is not remembered", short(line)), cj));
            }
        }
    }
    Ok(())
}

/// C08 pass
pub fn run_position(lines: &[String], rep: &mut Report) -> Result<(), Violation> {
    let Ok(mut sess) = guard(Session::new) else { return Ok(()) };
    let mut model = Game::new(Pos::startpos());
    let mut sent: Vec<String> = vec![];
    for l in lines {
        let k = classify(l);
        rep.class(&format!("fuzz-line:{}", k.name()));
        if matches!(k, Kind::Drop | Kind::ParseOnly) {
            continue;
        }
        sent.push(l.clone());
        let r = guard(|| sess.line(l));
        rep.eval(1);
        let res = match r {
            Ok(r) => r,
            Err(pm) => {
                let _ = drain_stdout();
                if matches!(k, Kind::Position(_)) {
                    return Err(Violation::new("session", &format!("session/panic/{}", panic_site(&pm)), format!("command '{}' panicked: {pm}", short(l)), json!({"lines": sent})));
                }
                // a panic on any other line is C15's subject
                return Ok(());
            }
        };
        let why;
        match &k {
            Kind::Position(Some(g)) => {
                if let Err(e) = &res {
                    let _ = drain_stdout();
                    return Err(Violation::new("accept", "accept/legal-game-refused/fuzz", format!("a legal game was refused ({e}): '{}'", short(l)), json!({"lines": sent})));
                }
                model = g.clone();
                why = "wrong-position";
            }
            Kind::Position(None) => {
                if res.is_ok() {
                    let _ = drain_stdout();
                    return Err(Violation::new("refuse", "refuse/illegal-move-accepted/fuzz", format!("a command with an illegal move was accepted: '{}'", short(l)), json!({"lines": sent})));
                }
                why = "refused-command-changed-position";
            }
            Kind::NewGame => {
                model = Game::new(Pos::startpos());
                why = "non-position-command";
            }
            Kind::Plain => {
                why = "non-position-command";
            }
            _ => {
                // Soft: whatever the engine made of it becomes the model; it must still be
                // a position the engine itself is consistent about
                model = Game::new(eng::snapshot(sess.board()));
                why = "soft";
            }
        }
        let r = state_check(sess.board(), &model, l, why, &sent);
        if r.is_err() {
            let _ = drain_stdout();
        }
        r?;
    }
    let _ = drain_stdout();
    Ok(())
}

pub fn run_bytes(data: &[u8], props: &str, rep: &mut Report) -> Result<(), (String, Violation)> {
    let lines = lines_of(data);
    let all = props.is_empty();
    if all || props.contains("C15") {
        run_survive(&lines, rep).map_err(|v| ("C15".to_string(), v))?;
    }
    if all || props.contains("C08") {
        run_position(&lines, rep).map_err(|v| ("C08".to_string(), v))?;
    }
    Ok(())
}

/// Entry used by the libFuzzer target.
pub fn fuzz_one(data: &[u8]) {
    let props = std::env::var("RCE_FUZZ_PROPS").unwrap_or_default();
    let mut rep = Report::new();
    let quiet = StderrSilence::new();
    let r = run_bytes(data, &props, &mut rep);
    drop(quiet);
    if let Err((p, v)) = r {
        let known = std::env::var("RCE_FUZZ_KNOWN").unwrap_or_default();
        if known.split(',').any(|k| !k.is_empty() && k == format!("{p}:{}", v.sig)) {
            return;
        }
        eprintln!("FUZZ-VIOLATION property={p} sig={} {}", v.sig, v.detail);
        std::process::abort();
    }
}

pub fn replay_raw(prop: &str, data: &[u8]) -> Report {
    let mut rep = Report::new();
    rep.eval(1);
    let quiet = StderrSilence::new();
    let r = run_bytes(data, prop, &mut rep);
    drop(quiet);
    if let Err((p, mut v)) = r {
        if p == prop {
            v.replay = json!({"raw_hex": data.iter().map(|b| format!("{b:02x}")).collect::<String>(), "decoded": {"lines": lines_of(data)}, "inner": v.replay});
            rep.violation(v);
        }
    }
    rep
}

/// Non-trivial corpus entry: one the property has something to say about.
pub fn nontrivial(prop: &str, data: &[u8]) -> bool {
    let ks: Vec<Kind> = lines_of(data).iter().map(|l| classify(l)).collect();
    if prop == "C08" {
        ks.iter().any(|k| matches!(k, Kind::Position(_)))
    } else {
        ks.iter().any(|k| matches!(k, Kind::Soft | Kind::ParseOnly | Kind::Position(None))) || lines_of(data).iter().any(|l| c15_malformed(l))
    }
}

fn c15_malformed(l: &str) -> bool {
    let t: Vec<&str> = l.split_whitespace().collect();
    match t.first() {
        None => true,
        Some(&"uci") | Some(&"isready") | Some(&"stop") | Some(&"ucinewgame") => t.len() > 1,
        Some(&"position") => false,
        Some(&"setoption") => !(t.len() >= 5 && t[1] == "name" && t.contains(&"value")),
        _ => true,
    }
}

/// Seed files for a campaign: sessions from the C08 and C15 proptest generators, written
/// as text (one command per line).
pub fn write_seeds(dir: &std::path::Path, corp: &corpus::Corpus, seed: u64, n: usize) -> usize {
    use proptest::test_runner::{Config, RngAlgorithm, RngSeed, TestRng, TestRunner};
    let mut s = [0u8; 32];
    s[..8].copy_from_slice(&seed.to_le_bytes());
    s[8] = 0x5e;
    let mut runner = TestRunner::new_with_rng(Config { failure_persistence: None, rng_seed: RngSeed::Fixed(seed), ..Config::default() }, TestRng::from_seed(RngAlgorithm::ChaCha, &s));
    let mut written = 0;
    for i in 0..n {
        let text = if i % 2 == 0 {
            let Ok(t) = c08::strategy().new_tree(&mut runner) else { continue };
            let cmds = c08::build_session(&t.current(), corp);
            cmds.iter().map(|c| c.text.clone()).filter(|t| t.len() <= MAX_LINE_BYTES).take(MAX_LINES).collect::<Vec<_>>().join("\n")
        } else {
            let Ok(t) = c15::strategy().new_tree(&mut runner) else { continue };
            let case = t.current();
            case.lines.iter().map(|ent| c15::gen_line(&mut Entropy::new(ent), corp).0).filter(|t| t.len() <= MAX_LINE_BYTES).take(MAX_LINES).collect::<Vec<_>>().join("\n")
        };
        if std::fs::write(dir.join(format!("seed-{i:03}")), text).is_ok() {
            written += 1;
        }
    }
    written
}

pub const DICT: &[&str] = &[
    "position", "startpos", "fen", "moves", "ucinewgame", "isready", "uci", "stop", "setoption", "name", "value", "Hash", "Threads", "go", "quit", "depth", "nodes", "movetime", "wtime", "btime", "winc", "binc", "movestogo", "infinite", "ponder",
    "searchmoves", "mate", "e2e4", "e7e5", "g1f3", "b8c6", "e1g1", "e8g8", "e1c1", "e8c8", "a7a8q", "a7a8n", "b7a8r", "h2h1b", "e5d6", "0000", " w ", " b ", " - ", "KQkq", " 0 1", "/8/", "rnbqkbnr/pppppppp/8/8/8/8/PPPPPPPP/RNBQKBNR w KQkq - 0 1",
    "r3k2r/8/8/8/8/8/8/R3K2R w KQkq - 0 1", "4k3/P7/8/8/8/8/7p/4K3 w - - 0 1", "\\x0a", "\\x09", "-1", "18446744073709551616", "4294967296", "65536", "256",
];

pub fn write_dict(path: &std::path::Path) -> bool {
    let mut s = String::new();
    for d in DICT {
        if d.starts_with("\\x") {
            s.push_str(&format!("\"{d}\"\n"));
        } else {
            s.push_str(&format!("\"{}\"\n", d.replace('\\', "\\\\").replace('"', "\\\"")));
        }
    }
    std::fs::write(path, s).is_ok()
}

pub fn sample_json(data: &[u8]) -> Value {
    let lines = lines_of(data);
    json!({"layer": "libfuzzer-text-session", "lines": lines.iter().map(|l| short(l)).collect::<Vec<_>>(), "kinds": lines.iter().map(|l| classify(l).name()).collect::<Vec<_>>()})
}

/// One blind mutation step on session text (quick tiers; the coverage-guided campaign of
/// the thorough tiers does the same with feedback).
pub fn mutate_text(text: &mut Vec<u8>, e: &mut Entropy) {
    let n = text.len();
    match e.pick(10) {
        0 if n > 0 => {
            text.remove(e.pick(n));
        }
        1 => {
            let tok = DICT[e.pick(DICT.len())];
            let tok = match tok {
                "\\x0a" => "\n",
                "\\x09" => "\t",
                t => t,
            };
            let at = e.pick(n + 1);
            let mut ins = Vec::from(tok.as_bytes());
            if e.pick(2) == 0 {
                ins.insert(0, b' ');
                ins.push(b' ');
            }
            text.splice(at..at, ins);
        }
        2 if n > 0 => {
            // replace a byte by a printable one
            let at = e.pick(n);
            text[at] = b' ' + e.pick(95) as u8;
        }
        3 if n > 1 => {
            // delete a whitespace-delimited token
            let at = e.pick(n);
            let st = text[..at].iter().rposition(|b| b.is_ascii_whitespace()).map_or(0, |i| i + 1);
            let en = text[at..].iter().position(|b| b.is_ascii_whitespace()).map_or(n, |i| at + i);
            text.drain(st..en);
        }
        4 if n > 1 => {
            // duplicate a token
            let at = e.pick(n);
            let st = text[..at].iter().rposition(|b| b.is_ascii_whitespace()).map_or(0, |i| i + 1);
            let en = text[at..].iter().position(|b| b.is_ascii_whitespace()).map_or(n, |i| at + i);
            let mut tok = text[st..en].to_vec();
            tok.push(b' ');
            text.splice(st..st, tok);
        }
        5 if n > 0 => {
            // digit twiddle
            let digits: Vec<usize> = (0..n).filter(|&i| text[i].is_ascii_digit()).collect();
            if !digits.is_empty() {
                let at = digits[e.pick(digits.len())];
                text[at] = b'0' + e.pick(10) as u8;
            }
        }
        6 if n > 0 => {
            // a space becomes a line break or a line break a space
            let ws: Vec<usize> = (0..n).filter(|&i| text[i] == b' ' || text[i] == b'\n').collect();
            if !ws.is_empty() {
                let at = ws[e.pick(ws.len())];
                text[at] = if text[at] == b' ' { b'\n' } else { b' ' };
            }
        }
        8 => {
            // a multi-byte character somewhere (tokens whose byte length and character count differ)
            let at = e.pick(n + 1);
            let at = (0..=at).rev().find(|&i| std::str::from_utf8(&text[..i]).is_ok()).unwrap_or(0);
            let ch = ["\u{e9}", "\u{ff12}", "\u{1F600}", "\u{df}"][e.pick(4)];
            text.splice(at..at, ch.as_bytes().iter().copied());
        }
        7 if n > 3 => {
            // swap two neighbouring tokens' first bytes region: swap two bytes
            let a = e.pick(n);
            let b = e.pick(n);
            text.swap(a, b);
        }
        _ => {
            // truncate
            if n > 0 {
                text.truncate(e.pick(n));
            }
        }
    }
}

/// Quick-tier layer: generator sessions as text, 0..6 blind mutations, both passes.
pub fn mutation_layer(ctx: &Ctx, prop: &'static str, cases: u32, rep: &mut Report) {
    let corp = corpus::load(&ctx.verif);
    let strat = (c08::strategy(), c15::strategy(), proptest::collection::vec(proptest::prelude::any::<u16>(), 40));
    run_prop(ctx, &format!("{}-textmut", prop.to_lowercase()), cases, 300, strat, rep, |(a, b, ent), rep| {
        let mut e = Entropy::new(ent);
        let mut lines: Vec<String> = if e.pick(3) != 0 {
            c08::build_session(a, &corp).iter().map(|c| c.text.clone()).collect()
        } else {
            b.lines.iter().map(|ent| c15::gen_line(&mut Entropy::new(ent), &corp).0).collect()
        };
        lines.retain(|l| l.len() <= MAX_LINE_BYTES);
        lines.truncate(MAX_LINES);
        let mut text = lines.join("\n").into_bytes();
        let k = e.pick(7);
        for _ in 0..k {
            mutate_text(&mut text, &mut e);
        }
        let quiet = StderrSilence::new();
        let r = run_bytes(&text, prop, rep);
        drop(quiet);
        rep.class("layer:text-mutation");
        rep.class(&format!("text-mutations:{k}"));
        if nontrivial(prop, &text) {
            rep.nontrivial(o::hash_bytes(&text, 0x7e47));
        }
        rep.sample_for("text-mutation", || sample_json(&text));
        match r {
            Ok(()) => Ok(()),
            Err((_, mut v)) => {
                v.replay = json!({"raw_hex": text.iter().map(|b| format!("{b:02x}")).collect::<String>(), "decoded": {"lines": lines_of(&text)}, "inner": v.replay});
                Err(v)
            }
        }
    });
}

/// Thorough-tier layer: coverage-guided campaign on the `fuzz_uci` target.
pub fn campaign(ctx: &Ctx, prop: &str, rep: &mut Report) {
    let corp = corpus::load(&ctx.verif);
    let dir = ctx.scratch().join(format!("fuzzuci-seeds-{}-{}", prop, std::process::id()));
    let _ = std::fs::create_dir_all(&dir);
    let n = write_seeds(&dir, &corp, ctx.seed, 96);
    rep.class_n("libfuzzer:seed-files-from-generators", n as u64);
    let dict = ctx.scratch().join(format!("fuzzuci-{}-{}.dict", prop, std::process::id()));
    let have_dict = write_dict(&dict);
    let t = super::fuzzplay::Target { bin_env: "RCE_FUZZ_UCI_BIN", max_len: 1024, seed_dir: dir.clone(), dict: have_dict.then(|| dict.clone()), replay: replay_raw, nontrivial, sample: Some(sample_json), jobs_mode: false };
    super::fuzzplay::campaign_on(ctx, prop, rep, &t);
    let _ = std::fs::remove_dir_all(&dir);
    let _ = std::fs::remove_file(&dict);
}
