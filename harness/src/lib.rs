//! Verification harness for BrandonHarrisonCode/RCE.
//!
//! The engine is a binary crate, so it cannot be a dependency.  `check` builds a
//! symlink farm in which this file sits next to symlinks to every entry of
//! `/repo/src` (except `main.rs`); the module declarations below mirror `main.rs`.
#![allow(dead_code, unused_imports, clippy::all)]

#[macro_use]
extern crate strum_macros;
extern crate derive_more;

pub mod bench;
pub mod board;
pub mod evaluate;
pub mod logger;
pub mod search;
mod testing_utils;
pub mod uci;
#[cfg(rce_verif)]
pub mod verif_hooks;

pub mod vf;
