#![no_main]
//! libFuzzer target: bytes are decoded into (start position, op sequence) by the same
//! decoders the proptest generators use; the C01-C04/C07 oracles run inside and abort
//! with a message naming the property.
use libfuzzer_sys::fuzz_target;
use std::sync::Once;

static INIT: Once = Once::new();

fuzz_target!(|data: &[u8]| {
    INIT.call_once(|| {
        // libfuzzer-sys installs an aborting panic hook; the oracles catch engine
        // panics themselves (catch_unwind) and report them as violations
        rce_verif::vf::frame::install_quiet_panic_hook();
    });
    rce_verif::vf::fuzzplay::fuzz_one(data);
});
