#![no_main]
//! libFuzzer target: byte 0 selects depth / search history, the rest is decoded like
//! fuzz_play into (start position, played line); the C11/C12/C17 oracles run inside
//! (fuzzsearch.rs), aborting with a message naming the property.
use libfuzzer_sys::fuzz_target;
use std::sync::Once;

static INIT: Once = Once::new();

fuzz_target!(|data: &[u8]| {
    INIT.call_once(|| {
        rce_verif::vf::frame::install_quiet_panic_hook();
        // the search prints info / bestmove lines; the harness reads them from a pipe
        rce_verif::vf::frame::redirect_stdout();
    });
    rce_verif::vf::fuzzsearch::fuzz_one(data);
});
