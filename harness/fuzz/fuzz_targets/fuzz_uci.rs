#![no_main]
//! libFuzzer target: bytes are the text of a UCI session (one command per line); each line
//! is classified by the oracle's strict reading of the grammar and the C08/C15 oracles run
//! inside (fuzzuci.rs), aborting with a message naming the property.
use libfuzzer_sys::fuzz_target;
use std::sync::Once;

static INIT: Once = Once::new();

fuzz_target!(|data: &[u8]| {
    INIT.call_once(|| {
        rce_verif::vf::frame::install_quiet_panic_hook();
        // uci / isready answers go to a pipe that the oracles drain
        rce_verif::vf::frame::redirect_stdout();
    });
    rce_verif::vf::fuzzuci::fuzz_one(data);
});
